"""C06 -- combining simulation results is independent of how repetitions were
grouped."""
import types

import numpy as np

from pysym import REPO, repo_module
from pysym.core import And, Or, SBool, SInt, SReal
from pysym.npfacade import sym_isinstance
from pysym.runner import Harness, load_known

PROPERTY = 'C06'
RM = 'pyphysim.simulations.results'
PM = 'pyphysim.simulations.parameters'

EXPLANATION = (
    'The real Result / SimulationResults / combine_simulation_results code '
    'runs on Result objects whose statistics (_value, _total, _result_sum, '
    '_result_squared_sum, num_updates, accumulated lists, choice counters) are '
    'symbolic reals / integers.  (1) Inductive laws from ARBITRARY symbolic '
    'states: update(r,v,t) == merge(r, create(v,t)); merge(merge(a,b),c) == '
    'merge(a,merge(b,c)); merge leaves its operand unchanged -- these give '
    'partition and association independence for histories of any length. '
    '(2) Directly: every composition of a symbolic observation sequence of '
    'length <=3/5 into contiguous chunks x every merge tree x merging into a '
    'fresh empty result, compared field by field (value, total, update count, '
    'mean, variance, get_result, accumulated lists) with one object that saw '
    'the whole sequence and with an oracle written from the definition '
    '(sum v, sum t, mean of v/t, ...).  (3) Set level: merge_all_results into '
    'an empty / non-empty set, append_all_results, and '
    'combine_simulation_results over grids with symbolic parameter values '
    '(overlaps arise by forking on equalities inside np.union1d and '
    'get_pack_indexes).  Mean and variance are compared as exact rational '
    'functions of the symbolic statistics.  (4) RE-USE histories: objects '
    'that keep being used after they were merged / appended / combined '
    '(update, merge and read operations interleaved on up to three results '
    'and four result sets, merge into never-updated results, '
    'num_skipped_reps, attached parameters, combine with re-used and swapped '
    'operands, three operands in both association orders, other parameter '
    'orders); a shadow model that shares nothing is advanced by the '
    'definitions and after EVERY operation the receiver is compared with its '
    'model and every other object with its previous state, so aliasing in '
    'either direction and stale cached statistics show up.')
ASSUMPTIONS = [
    'floats are modelled as exact reals (rounding is outside the claim)',
    'RATIOTYPE observations have total != 0',
    'MISCTYPE: only "the last observation wins" is claimed (update count and '
    'statistics of MISC results are not compared); chunks are non-empty',
]

TYPES = ('SUM', 'RATIO', 'MISC', 'CHOICE')
CODE = dict(SUM=0, RATIO=1, MISC=2, CHOICE=3)
K = 3   # number of choices of the CHOICETYPE results
FIELDS = ('value', 'total', 'num_updates', 'result_sum',
          'result_squared_sum', 'value_list', 'total_list')
DERIVED = ('mean', 'var')


# ---------------------------------------------------------------------------
# value factories: symbolic (inside explore) / concrete (replay, differential)
class SymVals:
    sym = True

    def __init__(self, ctx):
        self.ctx = ctx

    def real(self, name, nonzero=False):
        return self.ctx.real(name, nonzero=nonzero)

    def int(self, name, lo=None, hi=None):
        return self.ctx.integer(name, lo, hi)

    def assume(self, cond):
        self.ctx.assume(cond)
        return True


class ConcVals:
    """values from a solver model (replay) or from an rng (differential)"""
    sym = False

    def __init__(self, model=None, rng=None, api=False):
        self.model = model or {}
        self.rng = rng
        self.api = api    # build result states through update() calls only
        self.log = []     # the public-API calls that built the states

    def real(self, name, nonzero=False):
        if name in self.model and not isinstance(self.model[name], str):
            v = float(self.model[name])
        elif self.rng is not None:
            v = self.rng.randint(-24, 24) / 8.0
        else:
            v = 1.0
        if nonzero and v == 0:
            v = 2.0
        return v

    def int(self, name, lo=None, hi=None):
        if name in self.model and not isinstance(self.model[name], str):
            return int(self.model[name])
        lo = 0 if lo is None else lo
        if self.rng is not None:
            return self.rng.randint(lo, hi if hi is not None else lo + 5)
        return lo

    def assume(self, cond):
        return bool(cond)


def all_of(xs):
    xs = list(xs)
    if any(isinstance(x, SBool) for x in xs):
        return And(*[x if isinstance(x, SBool) else bool(x) for x in xs])
    return all(bool(x) for x in xs)


def _close(x, y):
    if isinstance(x, (bool, int, np.integer)) and isinstance(
            y, (bool, int, np.integer)):
        return int(x) == int(y)
    try:
        fx, fy = float(x), float(y)
    except (TypeError, ValueError):
        return bool(x == y)
    if fx != fx or fy != fy:
        return False
    return abs(fx - fy) <= 1e-9 * max(1.0, abs(fx), abs(fy))


def same(x, y):
    """equality of two observed values: SBool (symbolic) or bool"""
    if x is y and not isinstance(x, float):
        return True
    if x is None or y is None or isinstance(x, str) or isinstance(y, str):
        if x is None or y is None:
            return x is None and y is None
        return isinstance(x, str) and isinstance(y, str) and x == y
    seq = (list, tuple, np.ndarray)
    if isinstance(x, seq) or isinstance(y, seq):
        if not (isinstance(x, seq) and isinstance(y, seq)):
            return False
        xs = np.asarray(x, dtype=object).ravel().tolist()
        ys = np.asarray(y, dtype=object).ravel().tolist()
        if len(xs) != len(ys):
            return False
        return all_of([same(a, b) for a, b in zip(xs, ys)])
    if isinstance(x, (SReal, SInt, SBool)) or isinstance(
            y, (SReal, SInt, SBool)):
        r = (x == y)
        return r if isinstance(r, SBool) else bool(r)
    return _close(x, y)


# ---------------------------------------------------------------------------
def new_result(Rm, typ, acc, name='r'):
    if typ == 'CHOICE':
        return Rm.Result(name, CODE[typ], acc, choice_num=K)
    return Rm.Result(name, CODE[typ], acc)


_CHOICE_OK = {}


def choice_update_works(Rm):
    """does a CHOICETYPE result accept an observation at all?  If not, the
    never-updated state is the only CHOICE state reachable through the public
    API and arbitrary CHOICE states are restricted to it."""
    k = id(Rm)
    if k not in _CHOICE_OK:
        try:
            new_result(Rm, 'CHOICE', False).update(0)
            _CHOICE_OK[k] = True
        except Exception:
            _CHOICE_OK[k] = False
    return _CHOICE_OK[k]


def arb_result(mk, Rm, tag, typ, acc, nlist=1, name='r', nmin=0,
               pos_total=False):
    """a Result in an arbitrary (symbolic) state, built by the real
    constructor and then filled attribute by attribute"""
    r = new_result(Rm, typ, acc, name)
    if typ == 'CHOICE' and not choice_update_works(Rm):
        if mk.sym:
            note = ('CHOICETYPE update raises: CHOICE states restricted to the '
                    'never-updated one (the only reachable state)')
            if note not in mk.ctx.notes:
                mk.ctx.notes.append(note)
        return r
    if not mk.sym and mk.api:
        # reachable state: 0..3 update() calls with random observations
        rng, calls = mk.rng, []
        for _ in range(rng.randint(nmin, 3)):
            if typ == 'CHOICE':
                o = (rng.randint(0, K - 1), None)
            elif typ == 'RATIO':
                o = (rng.randint(0, 16) / 4.0, float(2**rng.randint(0, 4)))
            else:
                o = (rng.randint(-16, 16) / 4.0, None)
            try:
                do_update(r, o)
                calls.append(o[0] if o[1] is None else o)
            except Exception as e:   # e.g. CHOICETYPE update is broken
                calls.append('update%r raised %s' % (o, type(e).__name__))
                r = new_result(Rm, typ, acc, name)
                break
        mk.log.append('%s=Result(%r,%s%s) updates=%r' % (
            tag, name, typ, ',accumulate' if acc else '', calls))
        return r
    if typ == 'CHOICE':
        cnt = [mk.int('%s_c%d' % (tag, i), 0) for i in range(K)]
        r._value = np.array(cnt, dtype=object if mk.sym else int)
        r._total = mk.int(tag + '_total', 0)
    else:
        r._value = mk.real(tag + '_value')
        if typ == 'RATIO':
            r._total = mk.real(tag + '_total')
            if pos_total:      # reachable updated states have total > 0
                mk.assume(r._total > 0)
    if typ in ('SUM', 'RATIO'):
        r._result_sum = mk.real(tag + '_rs')
        r._result_squared_sum = mk.real(tag + '_rss')
    r.num_updates = mk.int(tag + '_n', nmin)
    if acc:
        if typ == 'CHOICE':
            r._value_list = [mk.int('%s_vl%d' % (tag, i), 0, K - 1)
                             for i in range(nlist)]
        else:
            r._value_list = [mk.real('%s_vl%d' % (tag, i))
                             for i in range(nlist)]
        if typ == 'RATIO':
            r._total_list = [mk.real('%s_tl%d' % (tag, i))
                             for i in range(nlist)]
    return r


def clone(Rm, r, typ, acc):
    c = new_result(Rm, typ, acc, r.name)
    c._value = r._value.copy() if isinstance(r._value,
                                             np.ndarray) else r._value
    c._total = r._total
    c._result_sum = r._result_sum
    c._result_squared_sum = r._result_squared_sum
    c.num_updates = r.num_updates
    c._value_list = list(r._value_list)
    c._total_list = list(r._total_list)
    return c


def state(r):
    v = r._value
    if isinstance(v, np.ndarray):
        v = v.ravel().tolist()
    return dict(value=v, total=r._total, num_updates=r.num_updates,
                result_sum=r._result_sum,
                result_squared_sum=r._result_squared_sum,
                value_list=list(r._value_list),
                total_list=list(r._total_list))


def observe(r, with_result=False):
    st = state(r)
    todo = [('mean', r.get_result_mean), ('var', r.get_result_var)]
    if with_result:
        todo.append(('result', r.get_result))
    for nm, f in todo:
        try:
            st[nm] = f()
        except ZeroDivisionError:
            st[nm] = None
    return st


def _div(a, b):
    try:
        return a / b
    except ZeroDivisionError:
        return None


def derive(st):
    """mean / variance from the sufficient statistics (definition)"""
    st = dict(st)
    m = _div(st['result_sum'], st['num_updates'])
    q = _div(st['result_squared_sum'], st['num_updates'])
    st['mean'] = m
    st['var'] = None if m is None or q is None else q - m * m
    return st


def oplus(typ, acc, s1, s2):
    """definition of combining two states (written from the property)"""
    if typ == 'MISC':
        out = dict(s2)
    else:
        out = {}
        for f in ('total', 'num_updates', 'result_sum', 'result_squared_sum'):
            out[f] = s1[f] + s2[f]
        if typ == 'CHOICE':
            out['value'] = [a + b for a, b in zip(s1['value'], s2['value'])]
        else:
            out['value'] = s1['value'] + s2['value']
    if acc:
        out['value_list'] = list(s1['value_list']) + list(s2['value_list'])
        out['total_list'] = list(s1['total_list']) + list(s2['total_list'])
    else:
        out['value_list'] = list(s1['value_list'])
        out['total_list'] = list(s1['total_list'])
    return out


def empty_state(typ):
    return dict(value=[0] * K if typ == 'CHOICE' else 0, total=0,
                num_updates=0, result_sum=0, result_squared_sum=0,
                value_list=[], total_list=[])


def cmp_fields(typ, with_lists=True):
    if typ == 'MISC':    # last observation wins; accumulated lists concatenate
        return ('value', 'value_list', 'total_list') if with_lists else (
            'value', )
    f = FIELDS if with_lists else FIELDS[:5]
    return f + DERIVED


class Reporter:
    """sym: ctx.prove; concrete: collect names of failed obligations"""

    def __init__(self, ctx=None):
        self.ctx = ctx
        self.failed = []
        self.detail = {}
        self.n = 0

    def __call__(self, name, goal, detail=None):
        self.n += 1
        if self.ctx is not None:
            self.ctx.prove(name, goal)
        elif not bool(goal):
            self.failed.append(name)
            if detail is not None and len(self.detail) < 12:
                self.detail[name] = detail

    def compare(self, prefix, got, want, fields):
        for f in fields:
            self('%s:%s' % (prefix, f), same(got[f], want[f]),
                 detail=None if self.ctx is not None else dict(
                     got=_show(got[f]), want=_show(want[f])))


def _show(x):
    if isinstance(x, (list, tuple)):
        return [_show(e) for e in x]
    if isinstance(x, np.ndarray):
        return _show(x.tolist())
    if isinstance(x, (np.integer, )):
        return int(x)
    if isinstance(x, (np.floating, )):
        return float(x)
    if isinstance(x, (int, float, str, bool)) or x is None:
        return x
    return repr(x)


def obs(mk, typ, tag):
    if typ == 'CHOICE':
        return mk.int(tag + '_v', 0, K - 1), None
    if typ == 'RATIO':
        return mk.real(tag + '_v'), mk.real(tag + '_t', nonzero=True)
    return mk.real(tag + '_v'), None


def do_update(r, o):
    if o[1] is None:
        r.update(o[0])
    else:
        r.update(o[0], o[1])


# ---------------------------------------------------------------------------
# scenarios (shared by the symbolic run, the replay and the differential run;
# all comparisons are the property itself or oracles written from it)
def scen_law(mk, cfg, rep):
    Rm = repo_module(RM)
    typ, acc, law = cfg['type'], cfg['acc'], cfg['law']
    if law == 'refuse':
        # an accumulating receiver refuses a non-accumulating operand (its
        # lists could not be extended) and stays as it was
        a = arb_result(mk, Rm, 'a', typ, True, nlist=2)
        b = arb_result(mk, Rm, 'b', typ, False)
        sa, sb = state(a), state(b)
        try:
            a.merge(b)
            raised = None
        except AssertionError as e:
            raised = e
        rep('refuse|raises:AssertionError', raised is not None)
        if raised is not None:
            rep.compare('refuse|receiver', state(a), sa, FIELDS)
            rep.compare('refuse|operand[b]', state(b), sb, FIELDS)
        # the other direction is accepted (receiver does not accumulate)
        c = arb_result(mk, Rm, 'c', typ, False)
        d = arb_result(mk, Rm, 'd', typ, True, nlist=1)
        sc, sd = state(c), state(d)
        c.merge(d)
        rep.compare('refuse|accepted', derive(state(c)),
                    derive(oplus(typ, False, sc, sd)), cmp_fields(typ))
        return
    if law == 'upd':
        a = arb_result(mk, Rm, 'a', typ, acc, nlist=2)
        a2 = clone(Rm, a, typ, acc)
        o = obs(mk, typ, 'o')
        do_update(a, o)
        tot = K if typ == 'CHOICE' else (o[1] if o[1] is not None else 0)
        b = Rm.Result.create('r', CODE[typ], o[0], tot, acc)
        snap = state(b)
        a2.merge(b)
        rep.compare('upd|operand[b]', state(b), snap, FIELDS)
        rep.compare('upd|cmp', observe(a), observe(a2), cmp_fields(typ))
    else:
        a = arb_result(mk, Rm, 'a', typ, acc, nlist=2)
        b = arb_result(mk, Rm, 'b', typ, acc, nlist=1)
        c = arb_result(mk, Rm, 'c', typ, acc, nlist=1)
        a2, b2, c2 = (clone(Rm, x, typ, acc) for x in (a, b, c))
        sa, sb, sc = state(a), state(b), state(c)
        a.merge(b)
        rep.compare('assoc|operand[b]', state(b), sb, FIELDS)
        # one merge against the definition
        rep.compare('assoc|merge=def', derive(state(a)),
                    derive(oplus(typ, acc, sa, sb)), cmp_fields(typ))
        a.merge(c)
        rep.compare('assoc|operand[c]', state(c), sc, FIELDS)
        b2.merge(c2)
        rep.compare('assoc|operand[c2]', state(c2), sc, FIELDS)
        a2.merge(b2)
        rep.compare('assoc|cmp', observe(a), observe(a2), cmp_fields(typ))


def compositions(n):
    if n == 0:
        return [[]]
    out = []
    for first in range(1, n + 1):
        for rest in compositions(n - first):
            out.append([first] + rest)
    return out


def trees(lo, hi):
    if hi - lo == 1:
        return [lo]
    out = []
    for m in range(lo + 1, hi):
        for l in trees(lo, m):
            for r in trees(m, hi):
                out.append((l, r))
    return out


def seq_oracle(mk, typ, acc, seq):
    """what accumulating `seq` must give, from the definition"""
    L = len(seq)
    vs = [o[0] for o in seq]
    st = dict(num_updates=L, total_list=[], value_list=list(vs) if acc else [])
    if typ == 'SUM':
        s = sum(vs[1:], vs[0])
        st.update(value=s, total=0, result=s, mean=s / L,
                  var=sum([v * v for v in vs[1:]], vs[0] * vs[0]) / L -
                  (s / L) * (s / L))
    elif typ == 'RATIO':
        ts = [o[1] for o in seq]
        s, t = sum(vs[1:], vs[0]), sum(ts[1:], ts[0])
        rs = [v / u for v, u in zip(vs, ts)]
        m = sum(rs[1:], rs[0]) / L
        st.update(value=s, total=t, result=_div(s, t), mean=m,
                  var=sum([x * x for x in rs[1:]], rs[0] * rs[0]) / L - m * m)
        if acc:
            st['total_list'] = list(ts)
    elif typ == 'MISC':
        st.update(value=vs[-1], result=vs[-1])
    else:
        cnt = []
        for j in range(K):
            c = 0
            for v in vs:
                e = (v == j)
                c = c + (SInt(0) + e if isinstance(e, SBool) else int(e))
            cnt.append(c)
        st.update(value=cnt, total=L, result=[_div(c, L) for c in cnt])
    return st


def seq_fields(typ):
    if typ == 'SUM':
        return ('value', 'total', 'num_updates', 'mean', 'var', 'result',
                'value_list', 'total_list')
    if typ == 'RATIO':
        return ('value', 'total', 'num_updates', 'mean', 'var', 'result',
                'value_list', 'total_list')
    if typ == 'MISC':
        return ('value', 'result', 'value_list', 'total_list')
    # CHOICE get_result() is a float division of integer counters: compared
    # between groupings only, not with the exact oracle
    return ('value', 'total', 'num_updates', 'total_list')


def scen_partition(mk, cfg, rep):
    Rm = repo_module(RM)
    typ, acc, L = cfg['type'], cfg['acc'], cfg['L']
    seq = [obs(mk, typ, 'o%d' % i) for i in range(L)]
    ref = new_result(Rm, typ, acc)
    for o in seq:
        do_update(ref, o)
    oref = observe(ref, True)
    rep.compare('seq|ref=def', oref, seq_oracle(mk, typ, acc, seq),
                seq_fields(typ))
    fields = ('value', 'result', 'value_list', 'total_list') \
        if typ == 'MISC' else FIELDS + DERIVED + ('result', )
    if typ == 'CHOICE' and acc:
        # CHOICE value_list: the order of the accumulated choices
        rep('seq|ref=def:value_list', same(oref['value_list'],
                                           [o[0] for o in seq]))
    for comp in compositions(L):
        for tree in trees(0, len(comp)):
            for into_empty in (False, True):
                leaves, pos = [], 0
                for n in comp:
                    r = new_result(Rm, typ, acc)
                    for o in seq[pos:pos + n]:
                        do_update(r, o)
                    pos += n
                    leaves.append(r)
                tag = 'part%s%s%s' % (
                    ''.join(str(c) for c in comp),
                    str(tree).replace(' ', '').replace(',', ''),
                    'E' if into_empty else '')

                def ev(node):
                    if isinstance(node, int):
                        return leaves[node]
                    l, r = ev(node[0]), ev(node[1])
                    snap = state(r)
                    l.merge(r)
                    rep.compare(tag + '|operand', state(r), snap, FIELDS)
                    return l

                res = ev(tree)
                if into_empty:
                    root = new_result(Rm, typ, acc)
                    snap = state(res)
                    root.merge(res)
                    rep.compare(tag + '|operand', state(res), snap, FIELDS)
                    res = root
                rep.compare(tag + '|cmp', observe(res, True), oref, fields)


SET_TYPES = ('SUM', 'RATIO', 'MISC', 'CHOICE')


def _mkset(mk, Rm, tag, types, acc, nlist=1):
    S = Rm.SimulationResults()
    for typ in types:
        S.add_result(arb_result(mk, Rm, '%s_%s' % (tag, typ), typ, acc,
                                nlist=nlist, name=typ.lower()))
    return S


def _setstate(S, types):
    return {typ: [state(r) for r in S[typ.lower()]] for typ in types}


def scen_sets(mk, cfg, rep):
    Rm = repo_module(RM)
    mode, acc = cfg['mode'], cfg['acc']
    types = cfg.get('types', SET_TYPES)
    B = _mkset(mk, Rm, 'B', types, acc)
    C = _mkset(mk, Rm, 'C', types, acc)
    sB, sC = _setstate(B, types), _setstate(C, types)

    def operands(stage):
        nB, nC = _setstate(B, types), _setstate(C, types)
        for typ in types:
            rep.compare('%s|operand[B.%s]@%s' % (mode, typ, stage),
                        nB[typ][0], sB[typ][0], FIELDS)
            rep.compare('%s|operand[C.%s]@%s' % (mode, typ, stage),
                        nC[typ][0], sC[typ][0], FIELDS)

    if mode == 'into-empty':
        A = Rm.SimulationResults()
        A.merge_all_results(B)
        operands('merge1')
        for typ in types:
            rep.compare('%s|cmp1[%s]' % (mode, typ), state(A[typ.lower()][-1]),
                        sB[typ][0], FIELDS)
        A.merge_all_results(C)
        operands('merge2')
        for typ in types:
            want = derive(oplus(typ, acc, sB[typ][0], sC[typ][0]))
            rep.compare('%s|cmp2[%s]' % (mode, typ),
                        observe(A[typ.lower()][-1]), want, cmp_fields(typ))
            rep('%s|len[%s]' % (mode, typ), len(A[typ.lower()]) == 1)
    elif mode == 'into-nonempty':
        A = _mkset(mk, Rm, 'A', types, acc, nlist=2)
        sA = _setstate(A, types)
        A2 = Rm.SimulationResults()
        B2 = Rm.SimulationResults()
        C2 = Rm.SimulationResults()
        for typ in types:
            A2.add_result(clone(Rm, A[typ.lower()][0], typ, acc))
            B2.add_result(clone(Rm, B[typ.lower()][0], typ, acc))
            C2.add_result(clone(Rm, C[typ.lower()][0], typ, acc))
        A.merge_all_results(B)
        operands('merge1')
        A.merge_all_results(C)
        operands('merge2')
        # other grouping: A + (B + C)
        B2.merge_all_results(C2)
        A2.merge_all_results(B2)
        for typ in types:
            want = derive(oplus(typ, acc, oplus(typ, acc, sA[typ][0],
                                                 sB[typ][0]), sC[typ][0]))
            rep.compare('%s|cmp[%s]' % (mode, typ),
                        observe(A[typ.lower()][-1]), want, cmp_fields(typ))
            rep.compare('%s|regroup[%s]' % (mode, typ),
                        observe(A2[typ.lower()][-1]),
                        observe(A[typ.lower()][-1]), cmp_fields(typ))
            rep.compare('%s|operand[C2.%s]' % (mode, typ),
                        state(C2[typ.lower()][0]), sC[typ][0], FIELDS)
    else:   # append
        A = Rm.SimulationResults()
        A.append_all_results(B)
        A.append_all_results(C)
        operands('append')
        for typ in types:
            got = A[typ.lower()]
            rep('%s|len[%s]' % (mode, typ), len(got) == 2)
            if len(got) == 2:
                rep.compare('%s|cmp0[%s]' % (mode, typ), state(got[0]),
                            sB[typ][0], FIELDS)
                rep.compare('%s|cmp1[%s]' % (mode, typ), state(got[1]),
                            sC[typ][0], FIELDS)


def scen_combine(mk, cfg, rep):
    Rm, Pm = repo_module(RM), repo_module(PM)
    types, two = cfg['types'], cfg['two']
    x = [mk.real('x%d' % i) for i in range(cfg.get('nx', 2))]
    y = [mk.real('y%d' % i) for i in range(cfg.get('ny', 2))]
    for g in (x, y):     # values are distinct within one grid
        for i in range(len(g)):
            for k in range(i + 1, len(g)):
                if not mk.assume(g[i] != g[k]):
                    return
    q1, q2 = ([1, 2], [2, 3]) if two else ([None], [None])
    dt = object if mk.sym else float

    def mkset(tag, pv, qv):
        d = {'f': 10, 'p': np.array(pv, dtype=dt)}
        if two:
            d['q'] = np.array(qv)
        params = Pm.SimulationParameters.create(d)
        params.set_unpack_parameter('p')
        if two:
            params.set_unpack_parameter('q')
        S = Rm.SimulationResults()
        S.set_parameters(params)
        for typ in types:
            for i in range(len(pv)):
                for k in range(len(qv)):
                    S.append_result(arb_result(
                        mk, Rm, '%s_%s_%d%d' % (tag, typ, i, k), typ, False,
                        name=typ.lower(), nmin=1))
        return S

    S1, S2 = mkset('S1', x, q1), mkset('S2', y, q2)
    s1, s2 = _setstate(S1, types), _setstate(S2, types)
    U = Rm.combine_simulation_results(S1, S2)
    n1, n2 = _setstate(S1, types), _setstate(S2, types)
    for typ in types:
        for j in range(len(s1[typ])):
            rep.compare('combine|operand[S1.%s.%d]' % (typ, j), n1[typ][j],
                        s1[typ][j], FIELDS)
        for j in range(len(s2[typ])):
            rep.compare('combine|operand[S2.%s.%d]' % (typ, j), n2[typ][j],
                        s2[typ][j], FIELDS)
    variations = U.params.get_unpacked_params_list()
    used1 = [0] * (len(x) * len(q1))
    used2 = [0] * (len(y) * len(q2))
    for j, var in enumerate(variations):
        u = var['p']
        w = var['q'] if two else None
        i1 = [i * len(q1) + k for i in range(len(x)) for k in range(len(q1))
              if (not two or q1[k] == w) and bool(x[i] == u)]
        i2 = [i * len(q2) + k for i in range(len(y)) for k in range(len(q2))
              if (not two or q2[k] == w) and bool(y[i] == u)]
        for i in i1:
            used1[i] += 1
        for i in i2:
            used2[i] += 1
        # (with two unpacked parameters the union grid also holds
        # combinations simulated in neither set: their result stays empty)
        rep('combine|variation-sources[%d]' % j,
            len(i1) <= 1 and len(i2) <= 1 and
            (two or len(i1) + len(i2) >= 1))
        for typ in types:
            got_list = U[typ.lower()]
            if j >= len(got_list):
                rep('combine|len[%s]' % typ, False)
                continue
            want = empty_state(typ)
            for i in i1[:1]:
                want = oplus(typ, False, want, s1[typ][i])
            if typ == 'MISC' and i1 and i2:
                got = state(got_list[j])
                a, b = s1[typ][i1[0]]['value'], s2[typ][i2[0]]['value']
                g1, g2 = same(got['value'], a), same(got['value'], b)
                rep('combine|cmp[MISC.%d]:value' % j,
                    Or(g1, g2) if isinstance(g1, SBool) or isinstance(
                        g2, SBool) else (g1 or g2))
                continue
            for i in i2[:1]:
                want = oplus(typ, False, want, s2[typ][i])
            rep.compare('combine|cmp[%s]' % typ, observe(got_list[j]),
                        derive(want), cmp_fields(typ, with_lists=False))
    for typ in types:
        rep('combine|len[%s]' % typ, len(U[typ.lower()]) == len(variations))
    rep('combine|every-input-variation-used-once',
        all(c == 1 for c in used1) and all(c == 1 for c in used2))



# ---------------------------------------------------------------------------
# RE-USE histories: objects that keep being used after they were merged /
# appended / combined.  Every object has a shadow model (plain state
# dictionaries combined by the definitions upd_def / oplus; the model never
# shares anything), after EVERY operation the receiver is compared with its
# model and every other live object with its own state before the operation
# (aliasing in either direction shows up as operand- / bystander-mutated).
def _ind(e):
    return SInt(0) + e if isinstance(e, SBool) else int(bool(e))


def upd_def(typ, acc, s, o):
    """definition of update(value, total) on a state"""
    v, t = o
    out = dict(s)
    out['num_updates'] = s['num_updates'] + 1
    out['value_list'] = list(s['value_list'])
    out['total_list'] = list(s['total_list'])
    if typ == 'SUM':
        out['value'] = s['value'] + v
        out['result_sum'] = s['result_sum'] + v
        out['result_squared_sum'] = s['result_squared_sum'] + v * v
    elif typ == 'RATIO':
        r = v / t
        out['value'] = s['value'] + v
        out['total'] = s['total'] + t
        out['result_sum'] = s['result_sum'] + r
        out['result_squared_sum'] = s['result_squared_sum'] + r * r
    elif typ == 'MISC':
        out['value'] = v
    else:
        out['value'] = [c + _ind(v == j) for j, c in enumerate(s['value'])]
        out['total'] = s['total'] + 1
    if acc:
        out['value_list'].append(v)
        if typ == 'RATIO':
            out['total_list'].append(t)
    return out


def claimed(typ):
    return ('value', 'value_list', 'total_list') if typ == 'MISC' else FIELDS


def read_fields(typ):
    if typ == 'MISC':
        return ('value', )
    return ('mean', 'var')


def model_result(typ, st):
    """get_result() from a state, by definition"""
    if typ == 'RATIO':
        return _div(st['value'], st['total'])
    return st['value']


def _reads(mk, r):
    """the read-only accessors (a cached statistic would be filled here)"""
    ob = observe(r, True)
    if not mk.sym:
        with np.errstate(all='ignore'):
            try:
                r.get_confidence_interval()
            except Exception:
                pass
    return ob


def scen_history(mk, cfg, rep):
    """Result level.  cfg: type, acc (one flag per object a,b,c), init (one
    letter per object: f = never updated, a = arbitrary state, - = absent),
    ops: Ux (x.update(fresh observation)), Mxy (x.merge(y)), Rx (reads)."""
    Rm = repo_module(RM)
    typ = cfg['type']
    accs = dict(zip('abc', cfg['acc']))
    objs, model = {}, {}
    for nm, kind in zip('abc', cfg['init']):
        if kind == '-':
            continue
        if kind == 'f':
            r = new_result(Rm, typ, accs[nm])
            if not mk.sym:
                mk.log.append('%s=Result(%s%s) never updated' % (
                    nm, typ, ',accumulate' if accs[nm] else ''))
        else:
            r = arb_result(mk, Rm, nm, typ, accs[nm], nlist=1)
        objs[nm] = r
        model[nm] = state(r)
    for k, op in enumerate(cfg['ops']):
        snaps = {nm: state(r) for nm, r in objs.items()}
        tag = 'h%d%s' % (k, op)
        touched = operand = None
        if op[0] == 'U':
            x = op[1]
            o = obs(mk, typ, 'o%d' % k)
            do_update(objs[x], o)
            model[x] = upd_def(typ, accs[x], model[x], o)
            touched = x
            if not mk.sym:
                mk.log.append('%s.update%r' % (x, tuple(
                    e for e in o if e is not None)))
        elif op[0] == 'M':
            x, y = op[1], op[2]
            objs[x].merge(objs[y])
            model[x] = oplus(typ, accs[x], model[x], model[y])
            touched, operand = x, y
            if not mk.sym:
                mk.log.append('%s.merge(%s)' % (x, y))
        else:
            x = op[1]
            ob = _reads(mk, objs[x])
            rep.compare('%s|read[%s]' % (tag, x), ob, derive(model[x]),
                        read_fields(typ))
            res = ob.get('result')
            if isinstance(res, str):      # "Nothing yet"
                rep('%s|read[%s]:result' % (tag, x),
                    same(model[x]['num_updates'], 0))
            elif typ != 'CHOICE':
                rep('%s|read[%s]:result' % (tag, x),
                    same(res, model_result(typ, model[x])))
            if not mk.sym:
                mk.log.append('%s.get_result()/mean/var/confidence' % x)
        for nm, r in objs.items():
            if nm == touched:
                rep.compare('%s|cmp[%s]' % (tag, nm), state(r), model[nm],
                            claimed(typ))
            else:
                rep.compare('%s|%s[%s]' % (
                    tag, 'operand' if nm == operand else 'bystander', nm),
                    state(r), snaps[nm], FIELDS)
    for nm, r in objs.items():
        rep.compare('end|cmp[%s]' % nm, observe(r), derive(model[nm]),
                    cmp_fields(typ))


def _is_zero(n):
    """True / False when decided without the solver, else None"""
    if isinstance(n, (int, np.integer)):
        return int(n) == 0
    return None


def history_ok(init, accs, ops):
    """static validity: objects exist, an accumulating receiver needs an
    accumulating operand"""
    for op in ops:
        for x in op[1:]:
            if init['abc'.index(x)] == '-':
                return False
        if op[0] == 'M' and accs['abc'.index(op[1])] and not accs[
                'abc'.index(op[2])]:
            return False
    return True


H_QUICK = [
    # merge into a never-updated result, then keep using both sides
    ('faa', ['Mab', 'Ub', 'Ua', 'Mac', 'Ub', 'Uc']),
    ('faa', ['Mab', 'Mac', 'Ub', 'Uc', 'Ua', 'Ra']),
    ('ffa', ['Mab', 'Ua', 'Ub', 'Mab', 'Mac', 'Ub']),
    ('ffa', ['Mac', 'Mbc', 'Ua', 'Uc', 'Mab']),
    # reads between updates / merges (a cached statistic would go stale)
    ('aa-', ['Ra', 'Ua', 'Ra', 'Mab', 'Ra', 'Rb', 'Ub', 'Mba', 'Rb']),
    ('fa-', ['Ra', 'Mab', 'Ra', 'Ua', 'Ra', 'Ub', 'Mab', 'Ra']),
    # an operand that is merged twice / merged after having received
    ('aaa', ['Mab', 'Ub', 'Mab', 'Mba', 'Ua', 'Mca', 'Ua']),
    ('aaf', ['Mca', 'Ua', 'Mcb', 'Uc', 'Mac', 'Ub']),
]
H_ALPHABET = ('Ua', 'Ub', 'Mab', 'Mba', 'Mac', 'Mca', 'Ra')


NSR = 'num_skipped_reps'


def _nsr0():
    """state of add_new_result('num_skipped_reps', SUMTYPE, 0)"""
    st = empty_state('SUM')
    st['num_updates'] = 1
    return st


def scen_set_history(mk, cfg, rep):
    """SimulationResults level.  cfg: init {set: 'empty'|'arb'}, nsr (letters
    of the sets that hold a num_skipped_reps result), params (attach a
    SimulationParameters object to every set), ops: mXY
    (X.merge_all_results(Y)), aXY (X.append_all_results(Y); Y is handed over
    and not used again -- unless strict_append), uX (update the last result of
    every name of X), rX (reads)."""
    import copy as _copy
    Rm, Pm = repo_module(RM), repo_module(PM)
    types = cfg.get('types', SET_TYPES)
    acc = cfg['acc']
    typof = {t.lower(): t for t in types}
    typof[NSR] = 'SUM'
    live, M, P = {}, {}, {}
    for X in sorted(cfg['init']):
        S = Rm.SimulationResults()
        if cfg.get('params'):
            pr = Pm.SimulationParameters.create(
                {'who': X, 'grid': [1, 2, ord(X)]})
            pr.set_unpack_parameter('grid')
            S.set_parameters(pr)
            P[X] = (pr, _copy.deepcopy(pr.parameters))
        if cfg['init'][X] == 'arb':
            for typ in types:
                S.add_result(arb_result(mk, Rm, '%s_%s' % (X, typ), typ, acc,
                                        nlist=1, name=typ.lower(), nmin=1,
                                        pos_total=True))
            if X in cfg.get('nsr', ''):
                S.add_result(arb_result(mk, Rm, X + '_nsr', 'SUM', False,
                                        name=NSR, nmin=1))
        live[X] = S
        M[X] = {nm: [state(r) for r in S[nm]] for nm in S.get_result_names()}

    def racc(nm):
        return False if nm == NSR else acc

    for k, op in enumerate(cfg['ops']):
        snaps = {(X, nm, i): state(r) for X, S in live.items()
                 for nm in S.get_result_names() for i, r in enumerate(S[nm])}
        tag = 's%d%s' % (k, op)
        touched, operand = {}, None
        X = op[1]
        if op[0] == 'm':
            Y = operand = op[2]
            live[X].merge_all_results(live[Y])
            if not M[X]:
                M[X] = {nm: [dict(st) for st in sts]
                        for nm, sts in M[Y].items()}
                for nm, sts in M[X].items():
                    for i in range(len(sts)):
                        touched[(X, nm, i)] = 'copy'
            else:
                for nm in list(M[X]):
                    if nm != NSR:
                        M[X][nm][-1] = oplus(typof[nm], racc(nm),
                                             M[X][nm][-1], M[Y][nm][-1])
                        touched[(X, nm, len(M[X][nm]) - 1)] = 'merge'
                if NSR in M[Y]:
                    if NSR not in M[X]:
                        M[X][NSR] = [_nsr0()]
                    M[X][NSR][-1] = oplus('SUM', False, M[X][NSR][-1],
                                          M[Y][NSR][-1])
                    touched[(X, NSR, len(M[X][NSR]) - 1)] = 'merge'
            if not mk.sym:
                mk.log.append('%s.merge_all_results(%s)' % (X, Y))
        elif op[0] == 'a':
            Y = operand = op[2]
            live[X].append_all_results(live[Y])
            for nm, sts in M[Y].items():
                lst = M[X].setdefault(nm, [])
                for st in sts:
                    lst.append(dict(st))
                    touched[(X, nm, len(lst) - 1)] = 'copy'
            if not cfg.get('strict_append'):
                del live[Y]       # handed over (reference semantics)
            if not mk.sym:
                mk.log.append('%s.append_all_results(%s)' % (X, Y))
        elif op[0] == 'u':
            for nm in list(M[X]):
                if nm == NSR:
                    continue
                o = obs(mk, typof[nm], 'o%d_%s' % (k, nm))
                do_update(live[X][nm][-1], o)
                M[X][nm][-1] = upd_def(typof[nm], racc(nm), M[X][nm][-1], o)
                touched[(X, nm, len(M[X][nm]) - 1)] = 'update'
                if not mk.sym:
                    mk.log.append('%s[%r][-1].update%r' % (X, nm, tuple(
                        e for e in o if e is not None)))
        else:
            for nm in list(M[X]):
                if nm == NSR:
                    continue
                ob = _reads(mk, live[X][nm][-1])
                rep.compare('%s|read[%s.%s]' % (tag, X, nm), ob,
                            derive(M[X][nm][-1]),
                            ('value', ) if typof[nm] == 'MISC' else
                            ('mean', 'var'))
        for Z, S in live.items():
            names = S.get_result_names()
            rep('%s|names[%s]:names' % (tag, Z), sorted(names) == sorted(M[Z]))
            if cfg.get('params'):
                rep('%s|params[%s]:params' % (tag, Z),
                    S.params is P[Z][0] and
                    S.params.parameters == P[Z][1])
            for nm in M[Z]:
                if nm not in names:
                    continue
                real = S[nm]
                rep('%s|len[%s.%s]:len' % (tag, Z, nm),
                    len(real) == len(M[Z][nm]))
                for i, st in enumerate(M[Z][nm]):
                    if i >= len(real):
                        break
                    how = touched.get((Z, nm, i))
                    if how is not None:
                        fields = FIELDS if how == 'copy' else (
                            ('value', ) if nm == NSR else claimed(typof[nm]))
                        rep.compare('%s|cmp[%s.%s.%d]' % (tag, Z, nm, i),
                                    state(real[i]), st, fields)
                    elif (Z, nm, i) in snaps:
                        rep.compare('%s|%s[%s.%s.%d]' % (
                            tag, 'operand' if Z == operand else 'bystander',
                            Z, nm, i), state(real[i]), snaps[(Z, nm, i)],
                            FIELDS)
    for Z, S in live.items():
        for nm in M[Z]:
            if nm == NSR or nm not in S.get_result_names():
                continue
            for i, st in enumerate(M[Z][nm]):
                if i < len(S[nm]):
                    rep.compare('end|cmp[%s.%s.%d]' % (Z, nm, i),
                                observe(S[nm][i]), derive(st),
                                cmp_fields(typof[nm]))


def set_history_ok(init, ops, strict=False):
    """static validity: the operand of a merge / append is a live, non-empty
    set holding every name of the receiver; updates need results"""
    empty = {X: k == 'empty' for X, k in init.items()}
    livep = set(init)
    for op in ops:
        X = op[1]
        if X not in livep:
            return False
        if op[0] in 'ma':
            Y = op[2]
            if Y not in livep or Y == X or empty[Y]:
                return False
            empty[X] = False
            if op[0] == 'a' and not strict:
                livep.discard(Y)
        elif empty[X]:
            return False
    return True


SH_QUICK = [
    # copy made by the merge into an empty set: both directions afterwards
    (dict(A='empty', B='arb', C='arb'),
     ['mAB', 'uB', 'mAC', 'uC', 'uA', 'mBC', 'rA']),
    (dict(A='empty', B='arb', C='arb'),
     ['mAB', 'uA', 'mAB', 'uB', 'mBA', 'uA']),
    # append (hand-over) and merge interleaved: only the last result of a
    # name receives the merge
    (dict(A='empty', B='arb', C='arb', D='arb'),
     ['aAB', 'mAC', 'uC', 'aAC', 'mAD', 'uD', 'uA']),
    (dict(A='arb', B='arb', C='arb', D='arb'),
     ['rA', 'mAB', 'aAB', 'uA', 'mAC', 'rA', 'uC', 'mAD']),
    (dict(A='empty', B='arb', C='arb', D='arb'),
     ['mAB', 'aAC', 'uB', 'mAD', 'uA', 'mDB']),
]
SH_NSR = (dict(A='arb', B='arb', C='arb'),
          ['mAB', 'mAC', 'uB', 'mBC', 'uA', 'mAB'])   # used with nsr='BC'
SH_ALPHABET = ('mAB', 'mAC', 'mBA', 'mBC', 'aAB', 'aAC', 'uA', 'uB', 'uC',
               'rA')


# ---- combine with re-used operands, three-way, parameter orders -------------
def _grid(mk, spec):
    return [mk.real(e) if isinstance(e, str) else e for e in spec]


def _distinct(mk, g):
    for i in range(len(g)):
        for k in range(i + 1, len(g)):
            if isinstance(g[i], (int, float)) and isinstance(g[k],
                                                             (int, float)):
                if g[i] == g[k]:
                    return False
            elif not mk.assume(g[i] != g[k]):
                return False
    return True


def _mk_grid_set(mk, Rm, Pm, tag, typ, pv, qv, rev=False, fresh=False):
    """result set over p (x q) holding one result of `typ` per combination"""
    dt = object if mk.sym else float
    items = [('f', 10), ('fl', [1, 2]), ('p', np.array(pv, dtype=dt))]
    unpack = ['p']
    if qv is not None:
        items.append(('q', np.array(qv)))
        unpack.append('q')
    if rev:      # other insertion order / other order of the unpack marks
        items.reverse()
        unpack.reverse()
    params = Pm.SimulationParameters.create(dict(items))
    for nm in unpack:
        params.set_unpack_parameter(nm)
    S = Rm.SimulationResults()
    S.set_parameters(params)
    for i in range(len(pv)):
        for k in range(len(qv) if qv is not None else 1):
            if fresh:
                r = new_result(Rm, typ, False, name='res')
            else:
                r = arb_result(mk, Rm, '%s_%d%d' % (tag, i, k), typ, False,
                               name='res', nmin=1)
            S.append_result(r)
    if not mk.sym:
        mk.log.append('%s: p=%r q=%r%s%s' % (tag, list(pv), qv, ' reversed-'
                                             'order' if rev else '',
                                             ' never-updated' if fresh
                                             else ''))
    return S


def _check_union(mk, rep, tag, typ, U, parts):
    """U must hold, per parameter combination, the fold (in operand order) of
    the states of the operands that simulated that combination.
    parts: list of (pv, qv, states)"""
    variations = U.params.get_unpacked_params_list()
    got = U['res']
    rep('%s|len:len' % tag, len(got) == len(variations))
    used = [[0] * len(st) for _, _, st in parts]
    for j, var in enumerate(variations):
        if j >= len(got):
            break
        u = var['p']
        want = empty_state(typ)
        srcs = 0
        for n, (pv, qv, sts) in enumerate(parts):
            nq = len(qv) if qv is not None else 1
            idx = [i * nq + k for i in range(len(pv)) for k in range(nq)
                   if (qv is None or qv[k] == var['q']) and bool(pv[i] == u)]
            rep('%s|sources[%d.%d]:count' % (tag, j, n), len(idx) <= 1)
            for i in idx[:1]:
                used[n][i] += 1
                want = oplus(typ, False, want, sts[i])
                srcs += 1
        if all(qv is None for _, qv, _ in parts):
            rep('%s|sources[%d]:count' % (tag, j), srcs >= 1)
        rep.compare('%s|cmp[%d]' % (tag, j), observe(got[j]), derive(want),
                    cmp_fields(typ, with_lists=False))
    rep('%s|every-input-combination-used-once:count' % tag,
        all(c == 1 for u_ in used for c in u_))


def scen_combine_reuse(mk, cfg, rep):
    Rm, Pm = repo_module(RM), repo_module(PM)
    typ = cfg['type']
    grids = [_grid(mk, g) for g in cfg['grids']]
    if not all(_distinct(mk, g) for g in grids):
        return
    qs = cfg.get('q') or [None] * len(grids)
    sets = [_mk_grid_set(mk, Rm, Pm, 'S%d' % (n + 1), typ, g, qs[n],
                         rev=(n in cfg.get('rev', [])),
                         fresh=(n in cfg.get('fresh', [])))
            for n, g in enumerate(grids)]

    def part(n):
        return (grids[n], qs[n], [state(r) for r in sets[n]['res']])

    def unchanged(tag, before):
        for n, S in enumerate(sets):
            for j, r in enumerate(S['res']):
                rep.compare('%s|operand[S%d.%d]' % (tag, n + 1, j), state(r),
                            before[n][2][j], FIELDS)
            rep('%s|operand-params[S%d]:params' % (tag, n + 1),
                bool(all_of([same(a, b) for a, b in zip(
                    list(S.params['p']), grids[n])])) and
                S.params['fl'] == [1, 2] and
                sorted(S.params.unpacked_parameters) == sorted(
                    ['p'] + (['q'] if qs[n] is not None else [])))

    before = [part(n) for n in range(len(sets))]
    U = Rm.combine_simulation_results(sets[0], sets[1])
    unchanged('c12', before)
    _check_union(mk, rep, 'c12', typ, U, before[:2])
    # the union owns its objects
    ops_res = [r for S in sets for r in S['res']]
    rep('c12|alias:result-objects', all(
        all(u is not r and (not isinstance(u._value, np.ndarray) or
                            u._value is not r._value) and
            u._value_list is not r._value_list for r in ops_res)
        for u in U['res']))
    rep('c12|alias:params', all(
        U.params is not S.params and U.params['p'] is not S.params['p'] and
        U.params['fl'] is not S.params['fl'] for S in sets[:2]))
    # operands and union keep being used
    snapU = [state(r) for r in U['res']]
    for j in sorted({0, len(sets[0]['res']) - 1}):
        o = obs(mk, typ, 'oS1_%d' % j)
        do_update(sets[0]['res'][j], o)
        before[0][2][j] = upd_def(typ, False, before[0][2][j], o)
    for j, r in enumerate(U['res']):
        rep.compare('reuse|bystander[U.%d]' % j, state(r), snapU[j], FIELDS)
    unchanged('reuse-S1-updated', before)
    do_update(U['res'][0], obs(mk, typ, 'oU_0'))
    unchanged('reuse-U-updated', before)
    # the same operands again: S1 has moved on, S2 is as before
    V = Rm.combine_simulation_results(sets[0], sets[1])
    unchanged('c12-again', before)
    _check_union(mk, rep, 'c12-again', typ, V, before[:2])
    if typ != 'MISC':
        W = Rm.combine_simulation_results(sets[1], sets[0])
        unchanged('c21', before)
        _check_union(mk, rep, 'c21', typ, W, [before[1], before[0]])
    if len(sets) == 3:
        L = Rm.combine_simulation_results(
            Rm.combine_simulation_results(sets[0], sets[1]), sets[2])
        unchanged('c(12)3', before)
        _check_union(mk, rep, 'c(12)3', typ, L, before)
        R = Rm.combine_simulation_results(
            sets[0], Rm.combine_simulation_results(sets[1], sets[2]))
        unchanged('c1(23)', before)
        _check_union(mk, rep, 'c1(23)', typ, R, before)


# ---------------------------------------------------------------------------
def _exc_key(exc, cls, prop=PROPERTY):
    """<entry point> > <innermost /repo function> of an exception"""
    quals = []
    tb = exc.__traceback__
    while tb is not None:
        co = tb.tb_frame.f_code
        if co.co_filename.startswith(REPO + '/'):
            quals.append(getattr(co, 'co_qualname', co.co_name))
        tb = tb.tb_next
    if not quals:
        raise exc     # raised by the harness itself, not by /repo code
    elif len(quals) == 1 or quals[0] == quals[-1]:
        site = quals[0]
    else:
        site = '%s>%s' % (quals[0], quals[-1])
    return '%s/%s/%s:raises-%s' % (prop, site, cls, type(exc).__name__)


class _IntObjNP(types.ModuleType):
    """np facade for the results module during symbolic runs: the CHOICE
    counter vector np.zeros(n, dtype=int) becomes an object array of exact
    integer zeros so that it can hold symbolic integers."""

    def __init__(self, base):
        super().__init__('c06np')
        self.__dict__['_base'] = base

    def __getattr__(self, name):
        return getattr(self.__dict__['_base'], name)

    def zeros(self, shape, dtype=None, **kw):
        if dtype is int:
            out = np.empty(shape, dtype=object)
            out.fill(0)
            return out
        return self.__dict__['_base'].zeros(shape, dtype=dtype, **kw)


class _Base(Harness):
    modules = (RM, PM)
    # only isinstance is injected: the stock facade also replaces the module
    # global `int`, which results.py passes to numpy as `dtype=int`
    builtins = dict(isinstance=sym_isinstance)
    scenario = None
    site = ''
    assumptions = tuple(ASSUMPTIONS)
    stubs = ('module-global isinstance facade (a symbolic integer counts as '
             'int, a symbolic real as float)',
             'np.zeros(n, dtype=int) -> object array of exact integer zeros '
             '(CHOICE counters may then hold symbolic integers)')
    div_mode = 'fork'

    def cls(self, cfg):
        return '%sTYPE%s' % (cfg['type'], '+acc' if cfg.get('acc') else '')

    def exc_cls(self, cfg):
        return '+'.join(t + 'TYPE' for t in cfg.get(
            'types', [cfg.get('type', 'ALL')]))

    def sym(self, ctx, cfg):
        Rm = repo_module(RM)
        old = Rm.np
        Rm.np = _IntObjNP(old)
        try:
            type(self).scenario(SymVals(ctx), cfg, Reporter(ctx))
        finally:
            Rm.np = old

    def _run(self, cfg, mk):
        rep = Reporter()
        exc = None
        try:
            type(self).scenario(mk, cfg, rep)
        except Exception as e:   # outcome of the code under test
            exc = e
        return rep, exc

    def key_for(self, cfg, name):
        """finding key of a failed obligation"""
        ctxt, _, rest = name.partition('|')
        kind, _, field = rest.partition(':')
        if kind.startswith('operand'):
            what = 'operand-mutated'
        else:
            what = 'differs:%s:%s' % (kind.split('[')[0], field)
        return '%s/%s/%s:%s' % (PROPERTY, self.site_of(cfg, name),
                                self.cls(cfg), what)

    def site_of(self, cfg, name):
        return self.site

    @staticmethod
    def _hit(name, rep, exc):
        if name.startswith('no-exception:'):
            # the obligation is "no exception escapes": any exception of the
            # real run reproduces it (the key names the real exception)
            return exc is not None
        return name in rep.failed

    def replay(self, cfg, name, model):
        """1. the solver's state (attributes assigned) must fail on the real
        code; 2. a witness whose result states are built ONLY through the
        public API (Result(...)/update()) is searched (parameter values and
        observations from the model, histories drawn with VERIF_SEED) and
        must fail the same obligation; only then the violation is reported."""
        import os
        import random
        rep, exc = self._run(cfg, ConcVals(model))
        if not self._hit(name, rep, exc):
            return dict(reproduced=False, key=None,
                        detail='obligation holds on the concrete run '
                        '(failed: %r, exception: %r)' % (rep.failed[:6], exc))
        seed = int(os.environ.get('VERIF_SEED', '0') or 0)
        for k in range(48):
            mk = ConcVals(model, rng=random.Random(seed * 7919 + k), api=True)
            rep2, exc2 = self._run(cfg, mk)
            if not self._hit(name, rep2, exc2):
                continue
            if name.startswith('no-exception:'):
                key = _exc_key(exc2, self.exc_cls(cfg))
                obs_ = repr(exc2)[:300]
            else:
                key = self.key_for(cfg, name)
                obs_ = rep2.detail.get(name)
            return dict(reproduced=True, key=key,
                        detail=dict(cfg=cfg, obligation=name, observed=obs_,
                                    public_api_calls=mk.log[:12],
                                    also_failed=rep2.failed[:8],
                                    inputs=_show_model(model)))
        return dict(reproduced=False, key=None,
                    detail='fails from the solver state %r but no state '
                    'reachable through the public API reproduces it' %
                    (_show_model(model), ))

    def concrete(self, cfg, rng):
        known = {e['key'] for e in load_known(PROPERTY)
                 if e.get('status') == 'known'}
        n = 0
        for _ in range(self.n_concrete):
            mk = ConcVals(rng=rng, api=True)
            rep, exc = self._run(cfg, mk)
            bad = [self.key_for(cfg, nm) for nm in rep.failed]
            if exc is not None:
                bad.append(_exc_key(exc, self.exc_cls(cfg)))
            new = [k for k in bad if k not in known]
            if new:
                # a run of the real code through the public API that breaks
                # the oracle is a replayed counterexample already
                from pysym.runner import ConcreteViolation
                raise ConcreteViolation(
                    new[0] + ':concrete-probe',
                    dict(cfg=cfg, failed=rep.failed[:6], calls=mk.log[:12],
                         detail=str(rep.detail)[:600]))
            if not bad:
                n += 1
        return n

    n_concrete = 10


def _show_model(model):
    return {k: (float(v) if not isinstance(v, (int, bool, str)) else v)
            for k, v in list(model.items())[:40]}


class Laws(_Base):
    """inductive laws from arbitrary symbolic Result states:
    update == merge(create), associativity, operand untouched."""
    name = 'laws'
    scenario = staticmethod(scen_law)
    functions = (RM + ':Result.update', RM + ':Result.merge',
                 RM + ':Result.create', RM + ':Result.get_result_mean',
                 RM + ':Result.get_result_var')
    bounds = ('arbitrary symbolic state (value, total, result_sum, '
              'result_squared_sum real; num_updates, choice counters integer '
              '>= 0; accumulated lists of length 2/1/1); 3 choices; all four '
              'types; accumulate_values on/off')
    outside = ('MISCTYPE update count / statistics (only "last wins" is '
               'claimed)', 'non-numeric MISC values',
               'floating-point rounding')

    def site_of(self, cfg, name):
        return 'Result.update~merge(create)' if cfg['law'] == 'upd' \
            else 'Result.merge'

    def configs(self, tier):
        return [dict(type=t, acc=a, law=l) for t in TYPES
                for a in (False, True) for l in ('upd', 'assoc')] + [
                    dict(type=t, acc=True, law='refuse') for t in TYPES]


class Partitions(_Base):
    """all contiguous partitions x merge trees of a symbolic observation
    sequence against one accumulating object and the definition."""
    name = 'partitions'
    scenario = staticmethod(scen_partition)
    site = 'Result.update+merge/partition'
    functions = (RM + ':Result.update', RM + ':Result.merge',
                 RM + ':Result.get_result', RM + ':Result.get_result_mean',
                 RM + ':Result.get_result_var')
    bounds = ('sequence length 1..3 (quick) / 1..5 (thorough; CHOICE 1..4) of symbolic '
              'observations; every composition into contiguous chunks x every '
              'binary merge tree x {merge in place, merge into a fresh empty '
              'result}; 3 choices (symbolic index, case split)')
    outside = ('sequences longer than 5 (covered by the inductive laws)',
               'empty chunks for MISCTYPE')
    n_concrete = 0

    def configs(self, tier):
        Ls = (1, 2, 3) if tier == 'quick' else (1, 2, 3, 4, 5)
        return [dict(type=t, acc=a, L=L) for t in TYPES for a in (False, True)
                for L in Ls if not (t == 'CHOICE' and L > 4)]

    def concrete(self, cfg, rng):
        """public API on plain numbers against an exact oracle"""
        from fractions import Fraction
        Rm = repo_module(RM)
        typ, acc, L = cfg['type'], cfg['acc'], cfg['L']
        n = 0
        for _ in range(8):
            if typ == 'CHOICE':
                seq = [(rng.randint(0, K - 1), None) for _ in range(L)]
            elif typ == 'RATIO':
                seq = [(rng.randint(0, 64), 2**rng.randint(0, 6))
                       for _ in range(L)]
            else:
                seq = [(rng.randint(-64, 64) / 8.0, None) for _ in range(L)]
            comps = compositions(L)
            comp = comps[rng.randrange(len(comps))]
            ts = trees(0, len(comp))
            tree = ts[rng.randrange(len(ts))]
            leaves, pos = [], 0
            try:
                for k in comp:
                    r = new_result(Rm, typ, acc)
                    for o in seq[pos:pos + k]:
                        do_update(r, o)
                    pos += k
                    leaves.append(r)
            except AttributeError as e:
                key = _exc_key(e, self.exc_cls(cfg))
                if key in {x['key'] for x in load_known(PROPERTY)}:
                    return 0
                raise

            def ev(node):
                if isinstance(node, int):
                    return leaves[node]
                l, r = ev(node[0]), ev(node[1])
                l.merge(r)
                return l

            res = ev(tree)
            vs = [Fraction(o[0]) for o in seq]
            assert res.num_updates == L or typ == 'MISC'
            if typ == 'SUM':
                assert Fraction(res.get_result()) == sum(vs)
                assert abs(res.get_result_mean() - float(sum(vs) / L)) < 1e-9
                assert abs(res.get_result_var() - float(sum(
                    v * v for v in vs) / L - (sum(vs) / L)**2)) < 1e-9
            elif typ == 'RATIO':
                ts_ = [Fraction(o[1]) for o in seq]
                assert Fraction(res.get_result()) == sum(vs) / sum(ts_) or \
                    abs(res.get_result() - float(sum(vs) / sum(ts_))) < 1e-12
                m = sum(v / t for v, t in zip(vs, ts_)) / L
                assert abs(res.get_result_mean() - float(m)) < 1e-12
            elif typ == 'MISC':
                assert res.get_result() == seq[-1][0]
            else:
                cnt = [sum(1 for o in seq if o[0] == j) for j in range(K)]
                assert list(res._value) == cnt and res._total == L
            n += 1
        return n


class Sets(_Base):
    """SimulationResults.merge_all_results / append_all_results."""
    name = 'sets'
    scenario = staticmethod(scen_sets)
    functions = (RM + ':SimulationResults.merge_all_results',
                 RM + ':SimulationResults.append_all_results',
                 RM + ':SimulationResults.append_result',
                 RM + ':SimulationResults.add_result', RM + ':Result.merge')
    bounds = ('result sets holding one result of each of the four types in '
              'arbitrary symbolic states; A=empty/non-empty; two merges; both '
              'groupings; accumulate on/off')
    outside = ("the special 'num_skipped_reps' result (created with an "
               "initial update of 0 by the runner's own convention)",
               'sets with several results per name (only the last is merged, '
               'documented)')

    def cls(self, cfg):
        return cfg['mode'] + ('+acc' if cfg['acc'] else '')

    def site_of(self, cfg, name):
        return 'SimulationResults.append_all_results' if cfg[
            'mode'] == 'append' else 'SimulationResults.merge_all_results'

    def key_for(self, cfg, name):
        ctxt, _, rest = name.partition('|')
        kind, _, field = rest.partition(':')
        if kind.startswith('operand'):
            what = 'operand-mutated-by-later-merge' if kind.endswith(
                '@merge2') and '[B.' in kind else 'operand-mutated'
        else:
            what = 'differs:%s:%s' % (kind, field)
        return '%s/%s/%s:%s' % (PROPERTY, self.site_of(cfg, name),
                                cfg['mode'], what)

    def configs(self, tier):
        return [dict(mode=m, acc=a)
                for m in ('into-empty', 'into-nonempty', 'append')
                for a in (False, True)]


class Combine(_Base):
    """combine_simulation_results on grids with symbolic parameter values."""
    name = 'combine'
    scenario = staticmethod(scen_combine)
    site = 'combine_simulation_results'
    functions = (RM + ':combine_simulation_results',
                 PM + ':combine_simulation_parameters',
                 PM + ':SimulationParameters.get_pack_indexes',
                 PM + ':SimulationParameters.get_unpacked_params_list',
                 RM + ':Result.merge')
    bounds = ('unpacked parameter p with 2+2 (thorough also 3+2, 1+3) '
              'symbolic real values (distinct '
              'within a grid; overlaps between the grids by forking), fixed '
              'parameter f; thorough: additionally a second unpacked parameter '
              'q=[1,2] / [2,3]; results of one type per set in arbitrary '
              'symbolic states with num_updates >= 1')
    outside = ('grids with more than 3 symbolic values per parameter',
               'never-updated results inside the combined sets (the laws '
               'harness covers num_updates = 0)',
               'accumulated lists of combined results (the fresh result '
               'created by combine does not accumulate)')
    n_concrete = 6
    unit_wall_s = {'quick': 240, 'thorough': 900}

    def cls(self, cfg):
        return '+'.join(cfg['types']) + ('/2params' if cfg['two'] else '')

    def configs(self, tier):
        out = [dict(types=[t], two=False) for t in TYPES]
        if tier != 'quick':
            out += [dict(types=[t], two=True) for t in TYPES]
            out += [dict(types=['SUM', 'RATIO', 'MISC'], two=False)]
            out += [dict(types=[t], two=False, nx=3, ny=2)
                    for t in ('SUM', 'RATIO', 'CHOICE')]
            out += [dict(types=['RATIO'], two=False, nx=1, ny=3)]
        return out

    def concrete(self, cfg, rng):
        # random grids overlap rarely: force overlaps on some runs
        known = {e['key'] for e in load_known(PROPERTY)
                 if e.get('status') == 'known'}
        n = 0
        for it in range(self.n_concrete):
            mk = ConcVals(rng=rng, api=True)
            x0, x1 = 1.5, -0.25
            forced = {0: {}, 1: {'y0': x0}, 2: {'y1': x1, 'y0': x0},
                      3: {'y1': x0}}[it % 4]
            mk.model = dict(x0=x0, x1=x1, **forced)
            if it % 6 == 4:
                # distinct parameter values that differ by less than a
                # typical float tolerance (the lookup must be exact)
                mk.model = dict(x0=1e-9, x1=2e-9, y0=4e-9, y1=1e-9)
            elif it % 6 == 5:
                mk.model = dict(x0=2.4e9, x1=2.4e9 + 5e3, y0=2.4e9 + 5e3,
                                y1=7.0)
            rep, exc = self._run(cfg, mk)
            bad = [self.key_for(cfg, nm) for nm in rep.failed]
            if exc is not None:
                bad.append(_exc_key(exc, self.exc_cls(cfg)))
            new = [k for k in bad if k not in known]
            if new:
                from pysym.runner import ConcreteViolation
                raise ConcreteViolation(
                    new[0] + ':concrete-probe',
                    dict(parameter_values=mk.model, failed=bad[:6],
                         detail=str(rep.detail)[:600]))
            if not bad:
                n += 1
        return n


def _reuse_key(prop_site, cls, name):
    ctxt, _, rest = name.partition('|')
    kind, _, field = rest.partition(':')
    base = kind.split('[')[0]
    if base in ('operand', 'operand-params'):
        what = 'operand-mutated'
    elif base == 'bystander':
        what = 'bystander-mutated(aliasing)'
    elif base == 'alias':
        what = 'aliases-operand:' + field
    else:
        what = 'differs:%s:%s' % (base, field)
    return '%s/%s/%s:%s' % (PROPERTY, prop_site, cls, what)


def _seqs(alphabet, maxlen):
    import itertools
    for n in range(1, maxlen + 1):
        for seq in itertools.product(alphabet, repeat=n):
            yield list(seq)


class Histories(_Base):
    """re-use histories of Result objects: update / merge / read interleaved,
    merge into never-updated results, operands that keep being updated or are
    merged again, mixed accumulation."""
    name = 'histories'
    scenario = staticmethod(scen_history)
    site = 'Result.history'
    functions = (RM + ':Result.update', RM + ':Result.merge',
                 RM + ':Result.get_result', RM + ':Result.get_result_mean',
                 RM + ':Result.get_result_var',
                 RM + ':Result.get_confidence_interval')
    bounds = ('up to three Result objects (never updated / arbitrary symbolic '
              'state), curated histories of 5..9 operations (quick); thorough: '
              'additionally ALL operation sequences of length 2 (and 3 from '
              'a never-updated receiver, acc on) over {a.update, b.update, a.merge(b), '
              'b.merge(a), a.merge(c), c.merge(a), reads of a}; after every '
              'operation every object is compared with its model / its '
              'previous state; all four types; accumulate on/off/mixed')
    outside = ('get_confidence_interval is only called (concrete runs), its '
               'value is not compared', 'self-merge a.merge(a)')
    n_concrete = 3

    def cls(self, cfg):
        return '%sTYPE/acc=%s' % (cfg['type'], ''.join(
            'T' if a else 'F' for a in cfg['acc']))

    def key_for(self, cfg, name):
        return _reuse_key(self.site, self.cls(cfg), name)

    def configs(self, tier):
        out = []
        F3, T3 = [False] * 3, [True] * 3
        for t in TYPES:
            for k, (init, ops) in enumerate(H_QUICK):
                out.append(dict(type=t, acc=T3, init=init, ops=ops))
                if k in (0, 4, 6) or tier != 'quick':
                    out.append(dict(type=t, acc=F3, init=init, ops=ops))
            # accumulating operands merged into a non-accumulating receiver
            out.append(dict(type=t, acc=[False, True, True], init='faa',
                            ops=['Mab', 'Ub', 'Ua', 'Mac', 'Uc', 'Mcb', 'Ra']))
        if tier != 'quick':
            for t in TYPES:
                for accs, inits, ml, alpha in (
                        (F3, ('faa', 'aaa'), 2, H_ALPHABET),
                        (T3, ('faa', ), 3, H_ALPHABET[:5] + ('Ra', )),
                        (T3, ('aaa', 'ffa'), 2, H_ALPHABET)):
                    for init in inits:
                        for ops in _seqs(alpha, ml):
                            if len(ops) > 1 and history_ok(init, accs, ops):
                                out.append(dict(type=t, acc=accs, init=init,
                                                ops=ops))
        return out


class SetHistories(_Base):
    """re-use histories of SimulationResults: merge_all_results /
    append_all_results interleaved, operands and receivers updated afterwards,
    num_skipped_reps, attached parameters."""
    name = 'set-histories'
    scenario = staticmethod(scen_set_history)
    site = 'SimulationResults.history'
    functions = Sets.functions if False else (
        RM + ':SimulationResults.merge_all_results',
        RM + ':SimulationResults.append_all_results',
        RM + ':SimulationResults.append_result',
        RM + ':SimulationResults.add_new_result',
        RM + ':SimulationResults.set_parameters', RM + ':Result.merge',
        RM + ':Result.update')
    bounds = ('up to four result sets (empty / one result of each type in an '
              'arbitrary symbolic state with num_updates >= 1 and RATIO total '
              '> 0, optionally a num_skipped_reps '
              'result and attached parameters); curated histories of 6..8 '
              'operations (quick); thorough: ALL valid operation sequences of '
              'length 2 and (SUM+RATIO+MISC sets) 3 over {A.merge(B), A.merge(C), B.merge(A), '
              'B.merge(C), A.append(B), A.append(C), update A/B/C, reads}; '
              'after every operation every live result is compared with its '
              'model / previous state')
    outside = ('a set handed to append_all_results is not used again '
               '(append stores the very Result objects: reference semantics; '
               'C06_STRICT_APPEND=1 checks the copy semantics instead)',
               "num_skipped_reps: only its value is compared (its update "
               "count follows the runner's create-with-0 convention)",
               'operands lacking a name of the receiver (KeyError, pinned by '
               'the test-suite)')
    n_concrete = 3

    def cls(self, cfg):
        return '%s/A=%s%s%s%s' % ('+'.join(cfg.get('types', ['ALL'])),
                                  cfg['init'].get('A'),
                               '+acc' if cfg['acc'] else '',
                               '+nsr' if cfg.get('nsr') else '',
                               '+strict-append' if cfg.get('strict_append')
                               else '')

    def exc_cls(self, cfg):
        return 'set-history'

    def key_for(self, cfg, name):
        return _reuse_key(self.site, self.cls(cfg), name)

    def configs(self, tier):
        import os
        out = []
        for k, (init, ops) in enumerate(SH_QUICK):
            live = ''.join(sorted(init))
            for types in (['SUM', 'RATIO', 'MISC'], ['CHOICE']):
                out.append(dict(init=init, ops=ops, acc=False, params=True,
                                nsr='', types=types))
                out.append(dict(init=init, ops=ops, acc=True, params=False,
                                types=types,
                                nsr=[live[1:], live[2:], live[1] + live[-1],
                                     live, live[:2]][k]))
        for types in (['SUM', 'RATIO', 'MISC'], ['CHOICE']):
            # receiver without, operands with a num_skipped_reps result
            out.append(dict(init=SH_NSR[0], ops=SH_NSR[1], acc=False,
                            params=True, nsr='BC', types=types))
        if os.environ.get('C06_STRICT_APPEND'):
            out.append(dict(init=dict(A='empty', B='arb', C='arb'),
                            ops=['aAB', 'mAC'], acc=False, nsr='',
                            types=['SUM'], strict_append=True))
        if tier != 'quick':
            G3, CH = ['SUM', 'RATIO', 'MISC'], ['CHOICE']
            for a0, acc, types, ml in (('empty', True, G3, 3),
                                       ('arb', False, G3, 3),
                                       ('empty', False, G3, 2),
                                       ('arb', True, G3, 2),
                                       ('empty', True, CH, 2),
                                       ('arb', False, CH, 2)):
                init = dict(A=a0, B='arb', C='arb')
                for ops in _seqs(SH_ALPHABET, ml):
                    if len(ops) > 1 and set_history_ok(init, ops):
                        out.append(dict(init=init, ops=ops, acc=acc,
                                        nsr='BC' if acc else '',
                                        params=not acc, types=types))
        return out


class CombineReuse(_Base):
    """combine_simulation_results with operands that are re-used afterwards,
    three operands in both association orders, swapped operands, parameters
    inserted / unpacked in another order, never-updated operand."""
    name = 'combine-reuse'
    scenario = staticmethod(scen_combine_reuse)
    site = 'combine_simulation_results/reuse'
    functions = Combine.functions
    bounds = ('grids mixing symbolic and constant parameter values: [a,1] + '
              '[b,2] (+ [1,2]); both association orders of three operands, '
              'operands swapped, the same operands combined again after they '
              'were updated; results of one type in arbitrary symbolic states '
              '(num_updates >= 1) or never updated; thorough: second unpacked '
              'parameter with reversed insertion / unpack order, three '
              'symbolic values')
    outside = Combine.outside[:1] + (
        'accumulated lists of combined results', )
    n_concrete = 8
    unit_wall_s = {'quick': 240, 'thorough': 900}

    def cls(self, cfg):
        return '%s/%dsets%s%s%s' % (cfg['type'], len(cfg['grids']),
                                     '/2params' if cfg.get('q') else '',
                                     '/rev' if cfg.get('rev') else '',
                                     '/fresh' if cfg.get('fresh') else '')

    def exc_cls(self, cfg):
        return cfg['type'] + 'TYPE'

    def key_for(self, cfg, name):
        return _reuse_key(self.site, self.cls(cfg), name)

    def configs(self, tier):
        g3 = [['a', 1], ['b', 2], [1, 2]]
        g2 = [['a', 1], [1, 'b']]
        out = [dict(type='SUM', grids=g3), dict(type='RATIO', grids=g2),
               dict(type='MISC', grids=g2), dict(type='CHOICE', grids=g2),
               dict(type='SUM', grids=g2, fresh=[1])]
        if tier != 'quick':
            out += [dict(type=t, grids=g3) for t in ('RATIO', 'MISC',
                                                     'CHOICE')]
            out += [dict(type=t, grids=g3, q=[[1, 2], [2, 3], [3, 1]],
                         rev=[1]) for t in ('SUM', 'CHOICE')]
            out += [dict(type=t, grids=g2, q=[[1, 2], [2, 1]], rev=[0])
                    for t in TYPES]
            out += [dict(type='RATIO', grids=g3, fresh=[2]),
                    dict(type='CHOICE', grids=g2, fresh=[0]),
                    dict(type='SUM', grids=[['a', 'c'], ['b', 2], [1, 2]])]
        return out

    def concrete(self, cfg, rng):
        """public API on floats; overlapping and nearly-equal grid values"""
        known = {e['key'] for e in load_known(PROPERTY)
                 if e.get('status') == 'known'}
        forced = [{}, dict(a=2.0, b=1.0), dict(a=1.0 + 1e-9, b=2.0 - 1e-9),
                  dict(a=2.0, b=2.0 + 4e-16 * 2), dict(a=1e-9, b=2e-9),
                  dict(a=2.0 + 1e-12, b=1.0 - 1e-12), dict(a=-1.0, b=-1.0),
                  dict(a=1.0 + 2e-16, b=1.0)]
        n = 0
        for it in range(self.n_concrete):
            mk = ConcVals(rng=rng, api=True)
            mk.model = dict(forced[it % len(forced)])
            rep, exc = self._run(cfg, mk)
            bad = [self.key_for(cfg, nm) for nm in rep.failed]
            if exc is not None:
                bad.append(_exc_key(exc, self.exc_cls(cfg)))
            new = [k for k in bad if k not in known]
            if new:
                from pysym.runner import ConcreteViolation
                raise ConcreteViolation(
                    new[0] + ':concrete-probe',
                    dict(parameter_values=mk.model, failed=rep.failed[:6],
                         calls=mk.log[:8], detail=str(rep.detail)[:600]))
            if not bad:
                n += 1
        return n


HARNESSES = [Laws(), Partitions(), Sets(), Combine(), Histories(),
             SetHistories(), CombineReuse()]
for _h in HARNESSES:      # many tiny work units: share forks
    type(_h).units_per_process = 8

MANIFEST = dict(
    category='model_checking',
    text='Bounded symbolic model checking of the real Result.update/merge/'
    'create, SimulationResults.merge_all_results/append_all_results and '
    'combine_simulation_results: (i) inductive laws update==merge(create), '
    'associativity and operand preservation from ARBITRARY symbolic result '
    'states (all four types, accumulation on/off), which give grouping '
    'independence for histories of any length; (ii) directly all contiguous '
    'partitions x merge trees of symbolic observation sequences of length '
    '<=3 (quick) / <=5 (thorough; choice results <=4) against one accumulating object and the '
    'definition (value, total, update count, mean, variance as exact rational '
    'functions); (iii) set-level merges into empty/non-empty sets in both '
    'groupings and combine over 2+2 symbolic parameter values with overlaps '
    'by forking; (iv) re-use histories (update/merge/read/append/combine '
    'interleaved on objects that were already merged, appended or combined; '
    'curated in quick, all sequences of length 2-3 in thorough) against a '
    'non-sharing shadow model after every operation.  z3 decides every '
    'comparison; counterexamples are replayed on the real code.',
    note='floats modelled as exact reals; RATIO totals non-zero; MISC: only '
    '"last observation wins"; arbitrary states are built by the real '
    'constructor plus attribute assignment; 3 choices; grids of 2 symbolic '
    'values; num_skipped_reps special case outside',
    technique='symbolic execution of the real code on symbolic result '
    'statistics (polynomial normal form + z3 NRA/LIA), path forking on '
    'parameter-value equalities, counterexample replay')
