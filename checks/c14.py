"""C14 -- Jakes fading samples do not depend on how generation was chunked."""
import itertools
import math
import types
from fractions import Fraction

import numpy as np
import z3

from pysym import fp, repo_module, uf
from pysym.core import And, Or, Poly, SBool, SComplex, SInt, SReal, cur
from pysym.npfacade import NP, _Random
from pysym.runner import Harness, model_floats

PROPERTY = 'C14'
FG = 'pyphysim.channels.fading_generators'

EXPLANATION = (
    'Chunking (reals): the real JakesSampleGenerator is constructed with a '
    'nondeterministic RNG stub (symbolic phases) and symbolic Fd, Ts; a '
    'bounded sequence of generate(n)/skip(s) requests (s a symbolic integer '
    'up to 1e10) is executed; the time of every returned sample is recovered '
    'from the symbolic sample itself and z3 proves it lies within 1e-9 '
    'relative of k*Ts for the global sample number k, and that every ray of '
    'every sample is the Jakes formula at that time (normal form).  Sample '
    'count under IEEE doubles (QF_FP, cvc5): the three arguments the real '
    '_generate_time_samples hands to np.arange are captured on binary64 '
    'proxies and numpy\'s length rule ceil((stop-start)/step) is compared '
    'with the requested count for all t0 in [0,1e7], Ts in [1e-9,1], n in '
    '[1,1e5]; if the code no longer passes floats to arange the count is '
    'structural.')


# ---------------------------------------------------------------------------
class _Captured(BaseException):
    pass


class _IntCount(fp.SFP):
    """requested sample count: an integral double that also serves as int"""
    __slots__ = ()


class ArangeLen(Harness):
    """IEEE-754: number of time samples produced for a request of n."""
    name = 'fp-sample-count'
    functions = (FG + ':JakesSampleGenerator._generate_time_samples', )
    bounds = ('binary64 RNE; t0 in [0,1e7], Ts in [1e-9,1], n integral in '
              '[1,1e5], t0 <= 1e10*Ts (cumulative position <= 1e10 samples); cvc5 '
              'QF_FP, 240 s cap')
    stubs = ('np.arange -> captures its (start, stop, step) argument terms; '
             'length rule ceil((stop-start)/step) is numpy\'s documented and '
             'implemented rule for float arange', )
    outside = ('t0 > 1e7', 'reachability of t0 from the public API is decided '
               'by replay (neighbourhood search over skip counts)')
    builtins = False

    def sym(self, ctx, cfg):
        jk = repo_module(FG)
        t0 = z3.FP('t0', fp.F64)
        Ts = z3.FP('Ts', fp.F64)
        n = z3.FP('n', fp.F64)
        obj = object.__new__(jk.JakesSampleGenerator)
        obj._current_time = fp.SFP(t0)
        obj._Ts = fp.SFP(Ts)
        obj._shape = None
        cap = []

        class FNP(types.ModuleType):
            def __getattr__(self, name):
                return getattr(np, name)

            def arange(self, *args, **kw):
                cap.append(args)
                raise _Captured()

        old = jk.np
        jk.np = FNP('fnp')
        try:
            obj._generate_time_samples(_IntCount(n))
        except _Captured:
            pass
        finally:
            jk.np = old
        if not cap:
            ctx.record('sample-count', 'unsat', 'structural',
                       detail='np.arange is not called')
            ctx.prove('reach', True)
            return
        args = cap[0]
        if len(args) == 1 and isinstance(args[0], _IntCount):
            ctx.record('sample-count', 'unsat', 'structural',
                       detail='integer arange(n): length n by definition')
            ctx.prove('reach', True)
            return
        if len(args) != 3 or not all(isinstance(a, fp.SFP) for a in args):
            ctx.record('sample-count', 'unknown', 'structural',
                       detail='unrecognised arange call %r' % (args, ))
            return
        start, stop, step = args
        ln = fp.ceil((stop - start) / step)

        def rng(x, lo, hi):
            return z3.And(z3.fpGEQ(x, fp.fpval(lo)), z3.fpLEQ(x, fp.fpval(hi)))

        integral = z3.fpEQ(z3.fpRoundToIntegral(z3.RTZ(), n), n)
        A = [rng(t0, 0, 1e7), rng(Ts, 1e-9, 1.0), rng(n, 1, 1e5), integral,
             z3.fpLEQ(t0, z3.fpMul(fp.RNE, fp.fpval(1e10), Ts))]
        # reachability twin: the assumptions are satisfiable
        st0, _, dt0, _ = fp.cvc5_check(A, 60, want_model=False)
        ctx.stats.add('cvc5-fp', dt0)
        if st0 != 'sat':
            ctx.record('reach-twin', 'unknown', 'cvc5-QF_FP')
        st, model, dt, text = fp.cvc5_check(
            A + [z3.Not(z3.fpEQ(ln.z, n))], 240)
        ctx.stats.add('cvc5-fp', dt)
        rec = ctx.record('sample-count', st, 'cvc5-QF_FP',
                         smt2=text[:1500])
        if st == 'sat':
            rec['model'] = model
        ctx.prove('reach', True)

    def replay(self, cfg, name, model):
        """public API only: construct, skip(k), generate(n)"""
        jk = repo_module(FG)
        m = model_floats(model)
        t0, Ts, n = m['t0'], m['Ts'], int(m['n'])
        k0 = int(round(t0 / Ts)) - 1
        tried = 0
        for dk in sorted(range(-200, 201), key=abs):
            k = k0 + dk
            if k < 0:
                continue
            g = jk.JakesSampleGenerator(Fd=5.0, Ts=Ts, L=4,
                                        RS=np.random.RandomState(1))
            g.skip_samples_for_next_generation(k)
            tried += 1
            try:
                g.generate_more_samples(n)
                got = g.get_samples().shape[-1]
                err = None
            except Exception as e:
                got, err = None, repr(e)
            if got != n:
                return dict(reproduced=True,
                            key='C14/jakes/sample-count:float-arange',
                            detail=dict(Ts=Ts, skipped=k, requested=n,
                                        got=got, error=err, tried=tried))
        return dict(reproduced=False, key=None,
                    detail='no reachable state near t0=%r reproduces' % t0)

    def concrete(self, cfg, rng):
        """long-running generators through the public API"""
        jk = repo_module(FG)
        k = 0
        for Ts, skip in ((1e-3, 10**6), (0.03125, 29360094), (1e-6, 10**9),
                         (1e-9, 10**10), (0.7, 10**7)):
            g = jk.JakesSampleGenerator(Fd=5.0, Ts=Ts, L=4,
                                        RS=np.random.RandomState(1))
            g.skip_samples_for_next_generation(skip)
            for n in (1, 2, 7, 1000):
                g.generate_more_samples(n)
                assert g.get_samples().shape[-1] == n, (Ts, skip, n)
                k += 1
        return k


# ---------------------------------------------------------------------------
def _extract_time(sample, scale, Fd, cphi, psi):
    """time t such that sample ray = scale*exp(j(2 pi Fd cphi t + psi))"""
    c = cur()
    re = sample.re if isinstance(sample, SComplex) else sample
    single = re.p.monomial_single()
    if single is None or len(single[1]) != 1:
        raise AssertionError('sample is not a single scaled phasor: %r' %
                             (re, ))
    at = c.atoms[single[1][0][0]]
    if at.kind != 'uf' or at.data[0] != 'Cos':
        raise AssertionError('sample real part is not a cosine: %r' % (re, ))
    arg = SReal(at.data[1])
    w = 2 * np.pi * Fd * cphi
    return (arg - psi) / w, single[0]


class Chunks(Harness):
    """any bounded sequence of generate/skip requests, L=1 (time recovery)
    and L>1 (every ray at the same recovered time)."""
    name = 'chunks'
    modules = (FG, )
    functions = (FG + ':JakesSampleGenerator.__init__',
                 FG + ':JakesSampleGenerator._generate_time_samples',
                 FG + ':JakesSampleGenerator.generate_more_samples',
                 FG + ':JakesSampleGenerator.skip_samples_for_next_generation',
                 FG + ':JakesSampleGenerator._set_phi_and_psi_according_to_shape')
    bounds = ('request sequences of length <=2 (quick) / <=3 (thorough) over '
              '{generate 1,2,3; skip s} with s a symbolic integer in '
              '[0,1e10]; L in {1,2}; shapes None,(2,),(2,1); Fd>0, Ts>0 reals')
    stubs = ('RS.rand -> fresh symbolic reals in [0,1)',
             'cos/sin/exp(j.) -> uninterpreted functions keyed by the exact '
             'argument polynomial', 'np.arange on reals -> numpy length rule '
             'and fill')
    assumptions = ('floats are exact reals in this harness (rounding is the '
                   'subject of fp-sample-count)', )
    div_mode = 'assume'

    def configs(self, tier):
        ops = ['g1', 'g2', 'g3', 's']
        maxlen = 2 if tier == 'quick' else 3
        out = []
        for L, shape in ((1, None), (2, None), (1, (2, )), (2, (2, 1))):
            for ln in range(1, maxlen + 1):
                for seq in itertools.product(ops, repeat=ln):
                    if seq[-1] == 's':
                        continue
                    if tier == 'quick' and (L, shape) != (1, None) and ln > 1 \
                            and seq not in (('s', 'g2'), ('g2', 'g1')):
                        continue
                    out.append(dict(L=L, shape=shape, seq=list(seq)))
        # re-configuration of a generator that was already used: the shape is
        # set to another one (fewer / more / same number of dimensions) and
        # the next request has the size of the previous one or another size
        for L, shape, to in ((1, (2, 1), None), (1, (2, 1), (2, )),
                             (1, (2, ), None), (1, None, (2, )),
                             (2, (2, 1), None), (1, (2, ), (1, 2))):
            hists = [['S', 'g1'], ['g2', 'S', 'g2'], ['g2', 'S', 'g1']]
            if tier != 'quick':
                hists += [['g1', 'S', 'g1', 'g2'], ['s', 'S', 'g1'],
                          ['g3', 'S', 'g3']]
            for seq in hists:
                out.append(dict(L=L, shape=shape, seq=seq, to=to))
        return out

    def sym(self, ctx, cfg):
        jk = repo_module(FG)
        L, shape = cfg['L'], cfg['shape']
        shape_t = tuple(shape) if shape is not None else None
        Fd = ctx.real('Fd', positive=True)
        Ts = ctx.real('Ts', positive=True)
        RS = _Random()
        g = jk.JakesSampleGenerator(Fd, Ts, L, shape_t, RS=RS)
        phi, psi = g._phi_l, g._psi_l
        scale = math.sqrt(1.0 / L)
        k = SInt(1) if False else 1   # constructor consumed sample 0
        kz = z3.IntVal(1)
        pos_shape = shape_t if shape_t is not None else ()
        first = g.get_samples()
        self._check_block(ctx, first, 0, z3.IntVal(0), 1, pos_shape, L, Fd,
                          Ts, phi, psi, scale, 'ctor')
        held = [(first, list(np.asarray(first, dtype=object).flat))]
        for j, op in enumerate(cfg['seq']):
            if op == 's':
                s = ctx.integer('s%d' % j, 0, 10**10)
                g.skip_samples_for_next_generation(s)
                kz = kz + s.z
            elif op == 'S':
                to = cfg['to']
                g.shape = tuple(to) if to is not None else None
                phi, psi = g._phi_l, g._psi_l       # redrawn for the new shape
                pos_shape = tuple(to) if to is not None else ()
            else:
                n = int(op[1])
                g.generate_more_samples(n)
                blk = g.get_samples()
                self._check_block(ctx, blk, j, kz, n, pos_shape,
                                  L, Fd, Ts, phi, psi, scale, op)
                held.append((blk, list(np.asarray(blk, dtype=object).flat)))
                kz = kz + n
        # arrays handed out earlier are the caller's: later requests must not
        # write into them
        same = True
        for arr, vals in held:
            now = list(np.asarray(arr, dtype=object).flat)
            if len(now) != len(vals) or any(
                    not (a is b or bool(a == b)) for a, b in zip(now, vals)):
                same = False
        ctx.record('earlier-blocks-unchanged', 'unsat' if same else 'sat',
                   'structural', model={})

    def _check_block(self, ctx, h, j, kz, n, pos_shape, L, Fd, Ts, phi, psi,
                     scale, tag):
        h = np.asarray(h, dtype=object)
        if h.shape != pos_shape + (n, ) and not (n == 1 and
                                                  h.shape == pos_shape + (1, )):
            ctx.record('shape', 'sat', 'structural',
                       model={}, detail='got %r expected %r' %
                       (h.shape, pos_shape + (n, )))
            return
        ctx.record('shape[%d]' % j, 'unsat', 'structural')
        goals = []
        for i in range(n):
            ktot = SInt(kz + i)
            for idx in np.ndindex(*pos_shape):
                sample = h[idx + (i, )]
                # recover the time from ray 0 via a single-ray decomposition:
                # rebuild the reference at a symbolic time and solve for it
                if L == 1:
                    cph = uf.cos(phi[(0, ) + idx + (0, )])
                    t, coeff = _extract_time(sample, scale, Fd, cph,
                                             psi[(0, ) + idx + (0, )])
                    ok_scale = (coeff == Fraction(scale))
                    if not ok_scale:
                        ctx.record('scale', 'sat', 'structural', model={},
                                   detail='coefficient %r' % (coeff, ))
                    want = ktot * Ts
                    goals.append(And(t - want <= want * Fraction(1, 10**9),
                                     want - t <= want * Fraction(1, 10**9)))
                    ref = SComplex(0, 0)
                    a = 2 * np.pi * Fd * cph * t + psi[(0, ) + idx + (0, )]
                    ref = scale * SComplex(uf.cos(a), uf.sin(a))
                    goals.append(sample == ref)
                else:
                    # time from the structure of the generator's own state is
                    # not needed: all rays must share one time tau; tau is
                    # read from the L=1 harness' law: (k)*Ts within tolerance.
                    # Here: sample == reference at SOME time tau within the
                    # tolerance; tau is found by matching ray 0.
                    tau = self._tau_from_sum(sample, L, scale, Fd, phi, psi,
                                             idx)
                    want = ktot * Ts
                    goals.append(And(tau - want <= want * Fraction(1, 10**9),
                                     want - tau <= want * Fraction(1, 10**9)))
                    ref = SComplex(0, 0)
                    for l in range(L):
                        a = 2 * np.pi * Fd * uf.cos(
                            phi[(l, ) + idx + (0, )]) * tau + psi[(l, ) + idx +
                                                                  (0, )]
                        ref = ref + SComplex(uf.cos(a), uf.sin(a))
                    goals.append(sample == scale * ref)
        ctx.prove('samples-are-jakes-at-k*Ts[%d:%s]' % (j, tag), And(*goals))

    @staticmethod
    def _tau_from_sum(sample, L, scale, Fd, phi, psi, idx):
        """find the Cos atom whose argument contains ray 0's psi symbol"""
        c = cur()
        psi0 = psi[(0, ) + idx + (0, )]
        cph0 = uf.cos(phi[(0, ) + idx + (0, )])
        psi_atoms = psi0.p.atoms()
        for m, coeff in sample.re.p.t.items():
            if len(m) == 1 and m[0][1] == 1:
                at = c.atoms[m[0][0]]
                if at.kind == 'uf' and at.data[0] == 'Cos' and \
                        psi_atoms <= at.data[1].atoms():
                    return (SReal(at.data[1]) - psi0) / (2 * np.pi * Fd * cph0)
        raise AssertionError('no ray-0 term found in %r' % (sample.re, ))

    def replay(self, cfg, name, model):
        """public API with a seeded RandomState; compare with the formula"""
        jk = repo_module(FG)
        m = model_floats(model)
        L, shape = cfg['L'], cfg['shape']
        shape_t = tuple(shape) if shape is not None else None
        Fd, Ts = m.get('Fd', 10.0), m.get('Ts', 1e-3)
        # the model's values first, then the same history at other operating
        # points of the stated ranges (long skips, very small Fd*Ts)
        for (fd, ts, skip) in ((Fd, Ts, None), (Fd, Ts, 10**9),
                               (5.0, 1e-9, 2 * 10**8), (0.5, 1e-8, 10**9),
                               (100.0, 1e-3, 7)):
            r = self._replay_at(cfg, m, fd, ts, skip)
            if r['reproduced']:
                return r
        return r

    def _replay_at(self, cfg, m, Fd, Ts, skip):
        jk = repo_module(FG)
        L, shape = cfg['L'], cfg['shape']
        shape_t = tuple(shape) if shape is not None else None
        g = jk.JakesSampleGenerator(Fd, Ts, L, shape_t,
                                    RS=np.random.RandomState(3))
        phi, psi = g._phi_l, g._psi_l
        k = 1
        bad = []
        held = []
        for j, op in enumerate(cfg['seq']):
            if op == 's':
                s = int(m.get('s%d' % j, 5)) if skip is None else skip
                g.skip_samples_for_next_generation(s)
                k += s
            elif op == 'S':
                to = cfg['to']
                shape_t = tuple(to) if to is not None else None
                g.shape = shape_t
                phi, psi = g._phi_l, g._psi_l
            else:
                n = int(op[1])
                try:
                    g.generate_more_samples(n)
                    h = g.get_samples()
                except Exception as e:
                    bad.append(('exception', j, repr(e)))
                    break
                want_shape = (shape_t or ()) + (n, )
                if h.shape != want_shape:
                    bad.append(('shape', j, h.shape, want_shape))
                    break
                t = (k + np.arange(n)) * Ts
                ref = math.sqrt(1.0 / L) * np.sum(np.exp(
                    1j * (2 * np.pi * Fd * np.cos(phi) * t + psi)), axis=0)
                tol = 1e-6 + 2 * np.pi * Fd * (k + n) * Ts * 2e-9
                if not np.allclose(h, ref, atol=tol):
                    bad.append(('value', j, float(np.max(np.abs(h - ref)))))
                    break
                held.append((h, ref, tol, j))
                k += n
        if not bad:
            for h, ref, tol, j in held:
                if h.shape != ref.shape or not np.allclose(h, ref, atol=tol):
                    bad.append(('earlier-block-overwritten', j))
                    break
        return dict(reproduced=bool(bad),
                    key='C14/jakes/chunks:' + (bad[0][0] if bad else '') + (
                        ':after-shape-change' if 'S' in cfg['seq'] else ''),
                    detail=dict(cfg=cfg, Fd=Fd, Ts=Ts, bad=bad))

    def _big_probe(self):
        """requests far beyond the symbolic bound (n up to 1e5, positions up
        to 1e7 samples) through the public API, against the Jakes formula"""
        from pysym.runner import ConcreteViolation
        jk = repo_module(FG)
        for (Fd, Ts, plan) in (
                (40.0, 1e-4, [('g', 50000), ('g', 10), ('g', 16384),
                              ('g', 16385), ('g', 3)]),
                (200.0, 1e-3, [('s', 6000000), ('g', 10), ('g', 100000),
                               ('g', 2)]),
                (7.0, 1e-5, [('g', 100000), ('s', 123457), ('g', 65537),
                             ('g', 1)])):
            g = jk.JakesSampleGenerator(Fd, Ts, 8, (2, ),
                                        RS=np.random.RandomState(11))
            phi, psi = g._phi_l, g._psi_l
            k = 1
            for op, n in plan:
                if op == 's':
                    g.skip_samples_for_next_generation(n)
                    k += n
                    continue
                g.generate_more_samples(n)
                h = g.get_samples()
                if h.shape != (2, n):
                    raise ConcreteViolation(
                        'C14/jakes/big-request:shape',
                        dict(Fd=Fd, Ts=Ts, plan=plan, got=h.shape))
                t = (k + np.arange(n)) * Ts
                ref = math.sqrt(1.0 / 8) * np.sum(np.exp(
                    1j * (2 * np.pi * Fd * np.cos(phi) * t + psi)), axis=0)
                tol = 1e-6 + 2 * np.pi * Fd * (k + n) * Ts * 2e-9
                err = float(np.max(np.abs(h - ref)))
                if err > tol:
                    raise ConcreteViolation(
                        'C14/jakes/big-request:value',
                        dict(Fd=Fd, Ts=Ts, plan=plan, at_sample=k, n=n,
                             max_error=err))
                k += n
        return 3

    def concrete(self, cfg, rng):
        """differential: chunked vs one-shot through the public API"""
        if cfg['L'] == 1 and cfg['shape'] is None and cfg['seq'] == ['g1']:
            return self._big_probe()
        from pysym.runner import ConcreteViolation
        n = 0
        for (Fd, Ts, skip) in ((rng.uniform(1, 100), 10**rng.uniform(-6, -2),
                                rng.randrange(0, 50)),
                               (rng.uniform(1, 300), 10**rng.uniform(-9, -7),
                                rng.randrange(10**6, 10**9)),
                               (rng.uniform(0.1, 10), 10**rng.uniform(-9, -8),
                                rng.randrange(10**8, 10**9))):
            r = self._replay_at(cfg, {}, Fd, Ts, skip)
            if r['reproduced']:
                raise ConcreteViolation(r['key'] + ':concrete-probe',
                                        r['detail'])
            n += 1
        return n


# ---------------------------------------------------------------------------
class Invariants(Harness):
    """Fd = 0 gives a time-invariant channel; |h|^2 <= L."""
    name = 'invariants'
    modules = (FG, )
    functions = (FG + ':JakesSampleGenerator.generate_more_samples', )
    bounds = 'L in 1..2 (quick) / 1..3 (thorough); one request of 2 samples'
    div_mode = 'assume'

    def configs(self, tier):
        Ls = [1, 2] if tier == 'quick' else [1, 2, 3]
        return [dict(L=L, fd0=f) for L in Ls for f in (True, False)]

    def sym(self, ctx, cfg):
        jk = repo_module(FG)
        L = cfg['L']
        Fd = 0.0 if cfg['fd0'] else ctx.real('Fd', positive=True)
        Ts = ctx.real('Ts', positive=True)
        g = jk.JakesSampleGenerator(Fd, Ts, L, None, RS=_Random())
        h0 = g.get_samples()[0]
        s = ctx.integer('s', 0, 10**10)
        g.skip_samples_for_next_generation(s)
        g.generate_more_samples(2)
        h = g.get_samples()
        if cfg['fd0']:
            ctx.prove('time-invariant', And(h[0] == h0, h[1] == h0))
        bound = L * (1 + Fraction(1, 10**12))
        # linearised proof: hypotheses cos^2+sin^2=1 (registered by the trig
        # stub) plus the squares (c_i-c_j)^2, (s_i-s_j)^2 >= 0
        from pysym.linearize import LinProver
        goals, squares = [], []
        for x in (h0, h[0], h[1]):
            goals.append((SReal(bound) - x.abs2()).p)
            parts_c = [SReal(Poly({m: c})) for m, c in x.re.p.t.items()]
            parts_s = [SReal(Poly({m: c})) for m, c in x.im.p.t.items()]
            for parts in (parts_c, parts_s):
                for i in range(len(parts)):
                    for j in range(i + 1, len(parts)):
                        d = parts[i] - parts[j]
                        squares.append((d * d).p)
        lp = LinProver(ctx, nonneg=list(ctx.signs) + squares)
        r, dt = lp.prove_nonneg(goals, rounds=1)
        ctx.record('magnitude<=sqrt(L)', r, 'lra-abstraction',
                   model=(ctx.witness() or {}) if r == 'sat' else None,
                   candidate=True)

    def replay(self, cfg, name, model):
        jk = repo_module(FG)
        m = model_floats(model)
        L = cfg['L']
        Fd = 0.0 if cfg['fd0'] else m.get('Fd', 7.0)
        g = jk.JakesSampleGenerator(Fd, m.get('Ts', 1e-3), L, None,
                                    RS=np.random.RandomState(2))
        h0 = g.get_samples()[0]
        g.skip_samples_for_next_generation(int(m.get('s', 3)))
        g.generate_more_samples(2)
        h = g.get_samples()
        bad = []
        if cfg['fd0'] and not np.allclose(h, h0, atol=1e-12):
            bad.append('time-invariant')
        if np.any(np.abs(np.r_[h0, h])**2 > L * (1 + 1e-9)):
            bad.append('magnitude')
        return dict(reproduced=bool(bad),
                    key='C14/jakes/' + '+'.join(bad), detail=dict(h=str(h)))


HARNESSES = [ArangeLen(), Chunks(), Invariants()]

MANIFEST = dict(
    category='model_checking',
    text='Bounded symbolic model checking of the real JakesSampleGenerator: '
    'all request sequences up to length 2/3 over generate{1,2,3}/skip(s) with '
    'symbolic s<=1e10, symbolic Fd, Ts and phases; z3 proves every returned '
    'sample is the Jakes sum at k*Ts (1e-9 relative) for the global index k. '
    'Sample counts under IEEE doubles are decided by cvc5 QF_FP over all t0<='
    '1e7, Ts in [1e-9,1], n<=1e5 on the arguments the real code passes to '
    'np.arange.',
    note='reals for the chunk law (rounding outside); cos/sin/exp as '
    'uninterpreted functions; numpy arange length rule trusted; RNG stub'
    '. Concrete data-representation / scale / boundary probes of the real'
    ' code (dtype, container and memory-layout variants, argument'
    ' immutability, magnitudes) accompany the symbolic runs; they are'
    ' differential runs, not solver verdicts.',
    technique='symbolic execution of real code on object arrays + z3 NRA/UF; '
    'argument capture + cvc5 QF_FP for the float sample count')
