#!/bin/bash
# Offline set-up: overlay venv on /venv with z3-solver (wheelhouse only).
set -e
cd "$(dirname "$0")"
if ! { [ -x .venv/bin/python ] && .venv/bin/python -c 'import z3, numpy' 2>/dev/null; }; then
  rm -rf .venv
  /venv/bin/python -m venv .venv
  SP=$(.venv/bin/python -c 'import sysconfig; print(sysconfig.get_paths()["purelib"])')
  echo "import site; site.addsitedir('/venv/lib/python3.12/site-packages')" > "$SP/_venv_overlay.pth"
  PIP_NO_INDEX=1 .venv/bin/pip install -q --no-index --find-links /opt/veriftools/wheels z3-solver jsonschema
fi
.venv/bin/python -c 'import z3, numpy; print("setup ok: z3", z3.get_version_string(), "numpy", numpy.__version__)'
