"""Transcendental functions as uninterpreted functions with instantiated axioms.

A proof that only uses these axioms holds for the true functions; a `sat`
answer may be spurious and must be decided by replay (DESIGN 2.1).
"""
import math
from fractions import Fraction

import z3

from .core import Poly, SReal, _q, cur

EPS = Fraction(1, 10**12)


def _bracket(ctx, atom, value):
    v = Fraction(value)
    w = abs(v) * EPS + EPS
    ctx.add(z3.And(atom.z >= _q(v - w), atom.z <= _q(v + w)))


def _pairwise_monotone(ctx, fn, arg, atom, increasing=True):
    za = arg.z3()
    for (b, bid) in ctx.uf_apps.get(fn, []):
        if bid == atom.id:
            continue
        zb = b.z3()
        fb = ctx.atoms[bid].z
        if increasing:
            ctx.add((za < zb) == (atom.z < fb))
        else:
            ctx.add((za < zb) == (atom.z > fb))
        ctx.add((za == zb) == (atom.z == fb))


def _positive(ctx, x, what):
    p = x.p
    if p.is_const():
        if p.const_value() <= 0:
            raise ValueError('%s of non-positive constant' % what)
        return
    single = p.monomial_single()
    if single is not None and single[0] > 0 and all(
            (ctx.atoms[a].nonneg and ctx.atoms[a].nonzero) or
            (e % 2 == 0 and ctx.atoms[a].nonzero) for a, e in single[1]):
        return
    k = ('pos', p.key())
    if k in ctx.memo:
        return
    z = x.z3()
    if ctx.div_mode == 'assume':
        ctx.add(z > 0)
    elif not ctx.decide(z > 0):
        raise ValueError('%s of a non-positive value' % what)
    ctx.memo[k] = True


def _exact_log(c, base):
    """k if c == base**k for an integer k (base integer > 1)."""
    c = Fraction(c)
    if c <= 0:
        return None
    k = 0
    if c >= 1:
        if c.denominator != 1:
            return None
        n = c.numerator
        while n % base == 0:
            n //= base
            k += 1
        return k if n == 1 else None
    r = _exact_log(1 / c, base)
    return None if r is None else -r


def _log(x, base, fn, pw):
    ctx = cur()
    x = x if isinstance(x, SReal) else SReal(x)
    if x.p.is_const():
        k = _exact_log(x.p.const_value(), base) if isinstance(base,
                                                                int) else None
        if x.p.const_value() == 1:
            k = 0
        if k is not None:
            return SReal(k)
    _positive(ctx, x, fn)
    # log(pow(y)) = y structurally
    single = x.p.monomial_single()
    if single is not None and single[0] == 1 and len(
            single[1]) == 1 and single[1][0][1] == 1:
        at = ctx.atoms[single[1][0][0]]
        if at.kind == 'uf' and at.data[0] == pw:
            return SReal(at.data[1])
    known = ('uf', fn, x.p.key()) in ctx.memo
    r, atom = ctx.uf(fn, x)
    if not known:
        zx = x.z3()
        ctx.add((zx > 1) == (atom.z > 0))
        ctx.add((zx == 1) == (atom.z == 0))
        if x.p.is_const():
            b = math.e if base == 'e' else base
            _bracket(ctx, atom, math.log(float(x.p.const_value())) /
                     math.log(b))
        f = ctx.uf_decl.get(pw)
        if f is None:
            f = z3.Function(pw, z3.RealSort(), z3.RealSort())
            ctx.uf_decl[pw] = f
        ctx.add(f(atom.z) == zx)
        _pairwise_monotone(ctx, fn, x, atom, True)
    return r


def _pow(y, base, fn, lg):
    """base**y, base a positive constant != 1 handled by caller."""
    ctx = cur()
    y = y if isinstance(y, SReal) else SReal(y)
    if y.p.is_const():
        c = y.p.const_value()
        if c.denominator == 1 and base != 'e' and abs(c.numerator) <= 400:
            return SReal(Fraction(base)**int(c))
        if c == 0:
            return SReal(1)
    single = y.p.monomial_single()
    if single is not None and single[0] == 1 and len(
            single[1]) == 1 and single[1][0][1] == 1:
        at = ctx.atoms[single[1][0][0]]
        if at.kind == 'uf' and at.data[0] == lg:
            return SReal(at.data[1])
    known = ('uf', fn, y.p.key()) in ctx.memo
    r, atom = ctx.uf(fn, y)
    if not known:
        atom.nonzero = atom.nonneg = True
        ctx.signs.append(Poly.atom(atom.id))
        zy = y.z3()
        ctx.add(atom.z > 0)
        inc = True if base == 'e' else Fraction(base) > 1
        if inc:
            ctx.add((zy > 0) == (atom.z > 1))
        else:
            ctx.add((zy > 0) == (atom.z < 1))
        ctx.add((zy == 0) == (atom.z == 1))
        if y.p.is_const():
            b = math.e if base == 'e' else float(base)
            try:
                _bracket(ctx, atom, b**float(y.p.const_value()))
            except OverflowError:
                pass
        f = ctx.uf_decl.get(lg)
        if f is None:
            f = z3.Function(lg, z3.RealSort(), z3.RealSort())
            ctx.uf_decl[lg] = f
        ctx.add(f(atom.z) == zy)
        _pairwise_monotone(ctx, fn, y, atom, inc)
    return r


def log10(x):
    return _log(x, 10, 'Log10', 'Pow10')


def log2(x):
    return _log(x, 2, 'Log2', 'Pow2')


def ln(x):
    return _log(x, 'e', 'Ln', 'Exp')


def exp(x):
    return _pow(x, 'e', 'Exp', 'Ln')


def pow10(x):
    return _pow(x, 10, 'Pow10', 'Log10')


def const_pow(c, x):
    c = Fraction(c)
    if not isinstance(x, SReal):
        x = SReal(x)
    if c == 10:
        return pow10(x)
    if c == 2:
        return _pow(x, 2, 'Pow2', 'Log2')
    if c == 1:
        return SReal(1)
    if c <= 0:
        raise ValueError('non-positive base with symbolic exponent')
    return _pow(x, c, 'Pow[%s]' % c, 'Log[%s]' % c)


def _trig(x):
    ctx = cur()
    x = x if isinstance(x, SReal) else SReal(x)
    known = ('uf', 'Cos', x.p.key()) in ctx.memo
    c, ca = ctx.uf('Cos', x)
    s, sa = ctx.uf('Sin', x)
    if not known:
        ctx.add(ca.z * ca.z + sa.z * sa.z == 1)
        ctx.add(z3.And(ca.z >= -1, ca.z <= 1, sa.z >= -1, sa.z <= 1))
        ctx.hyps.append(('trig', c.p * c.p + s.p * s.p - Poly.const(1)))
        if x.p.is_const():
            v = float(x.p.const_value())
            _bracket(ctx, ca, math.cos(v))
            _bracket(ctx, sa, math.sin(v))
    return c, s


def angle(z):
    """np.angle of a symbolic complex z != 0: an opaque angle theta whose
    unit phasor (c, s) satisfies |z| c = re z, |z| s = im z, c^2 + s^2 = 1.
    cos/sin/exp(1j*.) of +-theta fold to (c, +-s)."""
    from .core import SComplex
    ctx = cur()
    if not isinstance(z, SComplex):
        z = SComplex(z if isinstance(z, SReal) else SReal(z), 0)
    k = ('angle', z.re.p.key(), z.im.p.key())
    a = ctx.memo.get(k)
    if a is None and ctx.angle_zero_fork:
        # numpy: angle(0) = 0.  Fork on z == 0 (both parts, so that the
        # equalities are recorded as polynomial path facts)
        kz = ('angle0', z.re.p.key(), z.im.p.key())
        if kz not in ctx.memo:
            ctx.memo[kz] = bool(z.re == 0) and bool(z.im == 0)
        if ctx.memo[kz]:
            # on this path z = 0, hence |z| = 0 (a fact the linearised prover
            # cannot derive from s^2 = re^2 + im^2 by itself)
            if ('angle0mag', kz) not in ctx.memo:
                ctx.memo[('angle0mag', kz)] = True
                old = ctx.div_mode
                ctx.div_mode = 'assume'
                try:
                    mag = abs(z)
                finally:
                    ctx.div_mode = old
                if mag.p.t:
                    ctx.hyps.append(('path:|0|=0', mag.p))
                    ctx.add(mag.z3() == 0)
            return SReal(0)
    if a is None:
        mag = abs(z)
        ctx.ensure_nonzero(mag.p, 'angle of zero')
        n = next(ctx.fresh)
        c = ctx.real('phc%d' % n, lo=-1, hi=1)
        s_ = ctx.real('phs%d' % n, lo=-1, hi=1)
        a = ctx.new_atom('angle%d' % n, 'angle', (c, s_, z))
        ctx.memo[k] = a
        ctx.hyps.append(('phasor:unit', (c * c + s_ * s_ - 1).p))
        ctx.hyps.append(('phasor:re', (mag * c - z.re).p))
        ctx.hyps.append(('phasor:im', (mag * s_ - z.im).p))
        ctx.add(z3.And(c.z3() * c.z3() + s_.z3() * s_.z3() == 1,
                       mag.z3() * c.z3() == z.re.z3(),
                       mag.z3() * s_.z3() == z.im.z3(),
                       a.z > -4, a.z < 4))
    return SReal(Poly.atom(a.id))


def _angle_phasor(x):
    """(c, s) if x is +-(angle atom), else None"""
    single = x.p.monomial_single()
    if single is None or single[0] not in (1, -1) or len(single[1]) != 1 \
            or single[1][0][1] != 1:
        return None
    at = cur().atoms[single[1][0][0]]
    if at.kind != 'angle':
        return None
    c, s_, _ = at.data
    return (c, s_) if single[0] == 1 else (c, -s_)


def cos(x):
    x = x if isinstance(x, SReal) else SReal(x)
    if x.p.is_zero():
        return SReal(1)
    ph = _angle_phasor(x)
    if ph is not None:
        return ph[0]
    return _trig(x)[0]


def sin(x):
    x = x if isinstance(x, SReal) else SReal(x)
    if x.p.is_zero():
        return SReal(0)
    ph = _angle_phasor(x)
    if ph is not None:
        return ph[1]
    return _trig(x)[1]


def erfc(x):
    ctx = cur()
    x = x if isinstance(x, SReal) else SReal(x)
    if x.p.is_zero():
        return SReal(1)
    known = ('uf', 'Erfc', x.p.key()) in ctx.memo
    r, atom = ctx.uf('Erfc', x)
    if not known:
        atom.nonzero = atom.nonneg = True
        zx = x.z3()
        ctx.add(z3.And(atom.z > 0, atom.z < 2))
        ctx.add((zx > 0) == (atom.z < 1))
        ctx.add((zx == 0) == (atom.z == 1))
        if x.p.is_const():
            _bracket(ctx, atom, math.erfc(float(x.p.const_value())))
        _pairwise_monotone(ctx, 'Erfc', x, atom, False)
    return r
