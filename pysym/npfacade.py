"""numpy / math facade injected as module globals of the code under check.

Everything not overridden is forwarded to real numpy.  Overrides only take
effect while a symbolic context is active; otherwise real numpy is called, so
the same injected module also serves concrete (differential) runs.
"""
import builtins
import math as _math
import types
from fractions import Fraction

import numpy as _np
import z3

from . import core, uf
from .core import (OutsideBound, SBool, SComplex, SInt, SReal, SymArray,
                   active, as_symarray, cur)

PROXY = (SReal, SComplex, SInt, SBool, core.SBV)


def is_sym(x):
    if isinstance(x, PROXY):
        return True
    if isinstance(x, _np.ndarray) and x.dtype == object:
        return True
    if isinstance(x, (list, tuple)):
        return any(is_sym(e) for e in x)
    return False


def _objfill(shape, val):
    out = _np.empty(shape, dtype=object)
    out.fill(val)   # shared immutable proxy objects
    return out.view(SymArray)


def _rd(dtype):
    """undo the module-global float/int injection in dtype arguments"""
    if dtype is sym_float:
        return float
    if dtype is sym_int:
        return int
    return dtype


def _dtype_is_numeric_float(dtype):
    dtype = _rd(dtype)
    if dtype is None:
        return True
    if dtype is object:
        return False
    try:
        k = _np.dtype(dtype).kind
    except TypeError:
        return False
    return k in 'fc'


def _const(dtype, v):
    dtype = _rd(dtype)
    if dtype is not None and _np.dtype(dtype).kind == 'c':
        return SComplex(v, 0)
    return SReal(v)


def elementwise(f, a):
    if isinstance(a, _np.ndarray):
        out = _np.empty(a.shape, dtype=object)
        for idx in _np.ndindex(*a.shape):
            out[idx] = f(a[idx])
        return out.view(SymArray)
    if isinstance(a, (list, tuple)):
        return elementwise(f, _np.array(a, dtype=object))
    return f(a)


def _abs2(x):
    if isinstance(x, SComplex):
        return x.abs2()
    if isinstance(x, complex):
        return SReal(x.real)**2 + SReal(x.imag)**2
    return x * x


class _Linalg:
    def __init__(self, facade):
        self._f = facade

    def __getattr__(self, name):
        return getattr(_np.linalg, name)

    def norm(self, x, ord=None, axis=None):
        if not (active() and is_sym(x)):
            return _np.linalg.norm(x, ord, axis)
        x = _np.asarray(x, dtype=object)
        if axis is not None:
            raise OutsideBound('norm with axis on symbolic data')
        if ord not in (None, 'fro', 2) or (ord == 2 and x.ndim != 1):
            raise OutsideBound('norm ord=%r' % (ord, ))
        s = SReal(0)
        for e in x.flat:
            s = s + _abs2(e)
        c = cur()
        if c.norm_unit_check and not s.is_const() and c.hyps:
            # ||x||^2 = 1 provable from the contract hypotheses (unit-norm
            # eigen/singular vectors)?  then the norm is the constant 1
            from .linearize import LinProver
            lp = LinProver(c)
            lp.inst_budget_s = 5.0
            st, _ = lp.prove_zero([(s - 1).p], rounds=1)
            if st == 'unsat':
                return SReal(1)
        r = s.sqrt()
        if c.norm_positive and not r.is_const():
            single = r.p.monomial_single()
            if single is not None:
                for a, _ in single[1]:
                    at = c.atoms[a]
                    if not at.nonzero:
                        at.nonzero = True
                        c.add(at.z > 0)
                        c.notes.append('norm assumed non-zero (genericity)')
        return r

    def inv(self, a):
        if not (active() and is_sym(a)):
            return _np.linalg.inv(a)
        from . import contracts
        return contracts.inv(a)

    def pinv(self, a, *args, **kw):
        if not (active() and is_sym(a)):
            return _np.linalg.pinv(a, *args, **kw)
        from . import contracts
        return contracts.pinv(a)

    def solve(self, a, b):
        if not (active() and (is_sym(a) or is_sym(b))):
            return _np.linalg.solve(a, b)
        from . import contracts
        return contracts.solve(a, b)

    def svd(self, a, full_matrices=True, compute_uv=True, **kw):
        if not (active() and is_sym(a)):
            return _np.linalg.svd(a, full_matrices, compute_uv, **kw)
        from . import contracts
        return contracts.svd(a, full_matrices, compute_uv)

    def eig(self, a):
        if not (active() and is_sym(a)):
            return _np.linalg.eig(a)
        from . import contracts
        return contracts.eig(a)

    def eigh(self, a, *args, **kw):
        if not (active() and is_sym(a)):
            return _np.linalg.eigh(a, *args, **kw)
        from . import contracts
        return contracts.eigh(a)

    def qr(self, a, *args, **kw):
        if not (active() and is_sym(a)):
            return _np.linalg.qr(a, *args, **kw)
        from . import contracts
        return contracts.qr(a, *args, **kw)

    def matrix_rank(self, a, *args, **kw):
        if not (active() and is_sym(a)):
            return _np.linalg.matrix_rank(a, *args, **kw)
        from . import contracts
        return contracts.matrix_rank(a)

    def det(self, a):
        if not (active() and is_sym(a)):
            return _np.linalg.det(a)
        from . import contracts
        return contracts.det(a)


class _Random:
    """Nondeterministic RNG stub: fresh symbols within the documented range."""

    def __getattr__(self, name):
        return getattr(_np.random, name)

    @staticmethod
    def _shape(args):
        if len(args) == 1 and isinstance(args[0], (tuple, list)):
            return tuple(args[0])
        return tuple(int(a) for a in args)

    def rand(self, *shape):
        if not active():
            return _np.random.rand(*shape)
        c = cur()

        def mk():
            return c.real('rand%d' % next(c.fresh), lo=0, hi=None)

        if not shape:
            x = mk()
            c.add(x.z3() < 1)
            return x
        out = _np.empty(self._shape(shape), dtype=object)
        for idx in _np.ndindex(*out.shape):
            x = mk()
            c.add(x.z3() < 1)
            out[idx] = x
        return out

    def random_sample(self, size=None):
        if size is None:
            return self.rand()
        return self.rand(*(size if isinstance(size, (tuple, list)) else
                           (size, )))

    def randn(self, *shape):
        if not active():
            return _np.random.randn(*shape)
        c = cur()
        if not shape:
            return c.real('randn%d' % next(c.fresh))
        out = _np.empty(self._shape(shape), dtype=object)
        for idx in _np.ndindex(*out.shape):
            out[idx] = c.real('randn%d' % next(c.fresh))
        return out

    def uniform(self, low=0.0, high=1.0, size=None):
        if not active():
            return _np.random.uniform(low, high, size)
        u = self.random_sample(size)
        return low + (high - low) * u


class SymNP(types.ModuleType):
    """Drop-in for the module-global ``np``."""

    def __init__(self):
        super().__init__('symnp')
        self.linalg = _Linalg(self)
        self.random = _Random()
        self.fft = _FFT()

    def __getattr__(self, name):
        return getattr(_np, name)

    # ---- allocation ---------------------------------------------------------
    def zeros(self, shape, dtype=None, **kw):
        if active() and _dtype_is_numeric_float(dtype):
            return _objfill(shape, _const(dtype, 0))
        return _np.zeros(shape, dtype=_rd(dtype) if dtype is not None else float,
                         **kw)

    def ones(self, shape, dtype=None, **kw):
        if active() and _dtype_is_numeric_float(dtype):
            return _objfill(shape, _const(dtype, 1))
        return _np.ones(shape, dtype=_rd(dtype), **kw)

    def empty(self, shape, dtype=None, **kw):
        if active() and _dtype_is_numeric_float(dtype):
            return _objfill(shape, _const(dtype, 0))
        return _np.empty(shape, dtype=_rd(dtype) if dtype is not None else float,
                         **kw)

    def full(self, shape, fill_value, dtype=None, **kw):
        if active() and (is_sym(fill_value) or
                         _dtype_is_numeric_float(dtype) and not isinstance(
                             fill_value, (int, bool))):
            v = fill_value if isinstance(fill_value,
                                         PROXY) else _const(dtype, 0) + fill_value
            return _objfill(shape, v)
        return _np.full(shape, fill_value, dtype=_rd(dtype), **kw)

    def zeros_like(self, a, dtype=None, **kw):
        if active() and (is_sym(a) or (dtype is None and _np.asarray(a).dtype.kind in 'fc')
                         or (dtype is not None and _dtype_is_numeric_float(dtype))):
            d = dtype if dtype is not None else (
                complex if _anycomplex(a) else float)
            return _objfill(_np.shape(a), _const(d, 0))
        return _np.zeros_like(a, dtype=_rd(dtype), **kw)

    def ones_like(self, a, dtype=None, **kw):
        if active() and (is_sym(a) or _np.asarray(a).dtype.kind in 'fc'):
            d = dtype if dtype is not None else (
                complex if _anycomplex(a) else float)
            return _objfill(_np.shape(a), _const(d, 1))
        return _np.ones_like(a, dtype=_rd(dtype), **kw)

    def empty_like(self, a, dtype=None, **kw):
        return self.zeros_like(a, dtype=dtype, **kw)

    def eye(self, N, M=None, k=0, dtype=float, **kw):
        if active() and _dtype_is_numeric_float(dtype):
            M = N if M is None else M
            out = _objfill((N, M), _const(dtype, 0))
            one = _const(dtype, 1)
            for i in range(N):
                if 0 <= i + k < M:
                    out[i, i + k] = one
            return out
        return _np.eye(N, M, k, _rd(dtype), **kw)

    def identity(self, n, dtype=None):
        return self.eye(n, dtype=dtype if dtype is not None else float)

    # ---- predicates -----------------------------------------------------------
    def isscalar(self, x):
        if isinstance(x, PROXY):
            return True
        return _np.isscalar(x)

    def iscomplexobj(self, x):
        if active() and is_sym(x):
            return _anycomplex(x)
        return _np.iscomplexobj(x)

    def isrealobj(self, x):
        return not self.iscomplexobj(x)

    def allclose(self, a, b, rtol=1e-05, atol=1e-08, **kw):
        if not (active() and (is_sym(a) or is_sym(b))):
            return _np.allclose(a, b, rtol, atol, **kw)
        a, b = _np.broadcast_arrays(_np.asarray(a, dtype=object),
                                    _np.asarray(b, dtype=object))
        for x, y in zip(a.flat, b.flat):
            if not bool(abs(x - y) <= atol + rtol * abs(y)):
                return False
        return True

    def isclose(self, a, b, rtol=1e-05, atol=1e-08, **kw):
        if not (active() and (is_sym(a) or is_sym(b))):
            return _np.isclose(a, b, rtol, atol, **kw)
        scalar = not isinstance(a, _np.ndarray) and not isinstance(
            b, _np.ndarray) and not isinstance(a, (list, tuple)) and \
            not isinstance(b, (list, tuple))
        A, B = _np.broadcast_arrays(_np.asarray(a, dtype=object),
                                    _np.asarray(b, dtype=object))
        out = _np.empty(A.shape, dtype=object)
        for idx in _np.ndindex(*A.shape):
            x, y = A[idx], B[idx]
            out[idx] = abs(x - y) <= atol + rtol * abs(y)
        if scalar or out.ndim == 0:
            return out[()]
        return out

    def isfinite(self, a):
        if active() and is_sym(a):
            return elementwise(lambda e: True, a)
        return _np.isfinite(a)

    # ---- element-wise math ------------------------------------------------------
    def real(self, a):
        if active() and is_sym(a):
            return elementwise(lambda e: e.real if isinstance(
                e, PROXY) else SReal(complex(e).real), a)
        return _np.real(a)

    def imag(self, a):
        if active() and is_sym(a):
            return elementwise(lambda e: e.imag if isinstance(
                e, PROXY) else SReal(complex(e).imag), a)
        return _np.imag(a)

    def conj(self, a):
        if active() and is_sym(a):
            return elementwise(lambda e: e.conjugate(), a)
        return _np.conj(a)

    conjugate = conj

    def abs(self, a):
        if active() and is_sym(a):
            return elementwise(abs, a)
        return _np.abs(a)

    absolute = abs

    def sqrt(self, a):
        if active() and is_sym(a):
            return elementwise(_sqrt1, a)
        return _np.sqrt(a)

    def log10(self, a):
        if active() and is_sym(a):
            return elementwise(lambda e: uf.log10(_r(e)), a)
        return _np.log10(a)

    def log2(self, a):
        if active() and is_sym(a):
            return elementwise(lambda e: uf.log2(_r(e)), a)
        return _np.log2(a)

    def log(self, a):
        if active() and is_sym(a):
            return elementwise(lambda e: uf.ln(_r(e)), a)
        return _np.log(a)

    def exp(self, a):
        if active() and is_sym(a):
            return elementwise(
                lambda e: e.exp() if isinstance(e, (SReal, SComplex)) else
                core._coerce_cplx(e).exp(), a)
        return _np.exp(a)

    def cos(self, a):
        if active() and is_sym(a):
            return elementwise(lambda e: uf.cos(_r(e)), a)
        return _np.cos(a)

    def sin(self, a):
        if active() and is_sym(a):
            return elementwise(lambda e: uf.sin(_r(e)), a)
        return _np.sin(a)

    def power(self, a, b):
        if active() and (is_sym(a) or is_sym(b)):
            return _np.asarray(a, dtype=object)**b if isinstance(
                a, _np.ndarray) or isinstance(b, _np.ndarray) else a**b
        return _np.power(a, b)

    def sum(self, a, axis=None, **kw):
        if active() and is_sym(a) and not isinstance(a, _np.ndarray):
            a = _np.array(a, dtype=object)
        return _np.sum(a, axis=axis, **kw)

    def minimum(self, a, b):
        if active() and (is_sym(a) or is_sym(b)):
            return _binary(lambda x, y: x if x <= y else y, a, b)
        return _np.minimum(a, b)

    def maximum(self, a, b):
        if active() and (is_sym(a) or is_sym(b)):
            return _binary(lambda x, y: x if x >= y else y, a, b)
        return _np.maximum(a, b)

    def floor(self, a):
        if active() and is_sym(a):
            return elementwise(sym_floor, a)
        return _np.floor(a)

    def ceil(self, a):
        if active() and is_sym(a):
            return elementwise(lambda e: -sym_floor(-e), a)
        return _np.ceil(a)

    def round(self, a, decimals=0):
        if active() and is_sym(a):
            if decimals != 0:
                raise OutsideBound('round with decimals on symbolic data')
            return elementwise(sym_round_half_even, a)
        return _np.round(a, decimals)

    around = round
    rint = round

    def angle(self, z, deg=False):
        if active() and is_sym(z):
            if deg:
                raise OutsideBound('np.angle(deg=True) on symbolic data')
            return elementwise(uf.angle, z)
        return _np.angle(z, deg)

    def arange(self, *args, **kw):
        if not (active() and any(isinstance(a, PROXY) for a in args)):
            return _np.arange(*args, **kw)
        if len(args) == 1:
            start, stop, step = 0, args[0], 1
        elif len(args) == 2:
            start, stop, step = args[0], args[1], 1
        else:
            start, stop, step = args[:3]
        if all(isinstance(a, (int, _np.integer, SInt)) for a in
               (start, stop, step)):
            n = -((start - stop) // step)     # ceil((stop-start)/step)
            n = int(n) if not isinstance(n, SInt) else cur().choose_int(
                n.z, 'arange length')
            n = max(n, 0)
            out = _np.empty(n, dtype=object)
            for i in range(n):
                out[i] = start + i * step
            return out
        # float arange: numpy computes len = ceil((stop - start)/step) and
        # fills start + i*delta with delta = (start + step) - start
        start, stop, step = (_r(x) for x in (start, stop, step))
        q = (stop - start) / step
        if q.is_const():
            n = _math.ceil(q.const())
        else:
            k = -sym_floor(-q)
            at = k.p.monomial_single()
            zi = cur().atoms[at[1][0][0]].data
            n = cur().choose_int(zi if at[0] == 1 else -zi, 'arange length')
        n = max(int(n), 0)
        out = _np.empty(n, dtype=object)
        delta = (start + step) - start
        for i in range(n):
            out[i] = start + i * delta
        return out

    def bincount(self, x, weights=None, minlength=0):
        if not (active() and weights is not None and is_sym(weights)):
            return _np.bincount(x, weights=weights, minlength=minlength)
        x = _np.asarray(x)
        w = _np.asarray(weights, dtype=object)
        n = max(int(minlength), int(x.max()) + 1 if x.size else 0)
        out = _objfill((n, ), SReal(0))
        for i, b in enumerate(x):
            out[int(b)] = out[int(b)] + w[i]
        return out

    def sign(self, a):
        if not (active() and is_sym(a)):
            return _np.sign(a)

        def sg(e):
            if isinstance(e, SComplex) and not e.im.p.is_zero():
                if bool(e.re == 0) and bool(e.im == 0):
                    return SComplex(0, 0)
                return e / abs(e)
            x = _r(e)
            if x > 0:
                return SReal(1)
            if x < 0:
                return SReal(-1)
            return SReal(0)
        return elementwise(sg, a)

    def isnan(self, a):
        if active() and is_sym(a):
            return elementwise(lambda e: False, a)
        return _np.isnan(a)

    def array(self, obj, dtype=None, **kw):
        if active() and is_sym(obj) and _dtype_is_numeric_float(dtype):
            return as_symarray(_np.array(obj, dtype=object, **kw))
        return _np.array(obj, dtype=_rd(dtype), **kw)

    def asarray(self, obj, dtype=None, **kw):
        if active() and is_sym(obj) and _dtype_is_numeric_float(dtype):
            return as_symarray(_np.asarray(obj, dtype=object, **kw))
        return _np.asarray(obj, dtype=_rd(dtype), **kw)


def _anycomplex(a):
    if isinstance(a, SComplex):
        return True
    if isinstance(a, _np.ndarray):
        if a.dtype == object:
            return any(isinstance(e, (SComplex, complex)) for e in a.flat)
        return _np.iscomplexobj(a)
    if isinstance(a, (list, tuple)):
        return any(_anycomplex(e) for e in a)
    return isinstance(a, complex)


def _r(e):
    if isinstance(e, SReal):
        return e
    if isinstance(e, SComplex):
        if e.im.p.is_zero():
            return e.re
        raise OutsideBound('real function of a symbolic complex')
    return SReal(e)


def _sqrt1(e):
    if isinstance(e, (SReal, SComplex)):
        return e.sqrt()
    return SReal(e).sqrt()


def _binary(f, a, b):
    if isinstance(a, _np.ndarray) or isinstance(b, _np.ndarray):
        a, b = _np.broadcast_arrays(_np.asarray(a, dtype=object),
                                    _np.asarray(b, dtype=object))
        out = _np.empty(a.shape, dtype=object)
        for idx in _np.ndindex(*a.shape):
            out[idx] = f(a[idx], b[idx])
        return out
    return f(a, b)


def sym_floor(x):
    """floor of a symbolic real as a (real-valued) symbolic integer."""
    if isinstance(x, SInt):
        return x
    x = _r(x)
    if x.is_const():
        return SReal(_math.floor(x.const()))
    c = cur()
    k = z3.Int('floor%d' % next(c.fresh))
    zx = x.z3()
    c.add(z3.And(z3.ToReal(k) <= zx, zx < z3.ToReal(k) + 1))
    return SReal(c.int_atom(k))


def sym_round_half_even(x):
    if isinstance(x, SInt):
        return x
    x = _r(x)
    if x.is_const():
        return SReal(round(x.const()))
    c = cur()
    k = z3.Int('round%d' % next(c.fresh))
    zx = x.z3()
    kr = z3.ToReal(k)
    half = z3.Q(1, 2)
    c.add(z3.And(kr - half <= zx, zx <= kr + half))
    c.add(z3.Implies(zx == kr + half, k % 2 == 0))
    c.add(z3.Implies(zx == kr - half, k % 2 == 0))
    return SReal(c.int_atom(k))


class _FFT:
    def __getattr__(self, name):
        return getattr(_np.fft, name)

    def fft(self, a, n=None, axis=-1, norm=None):
        if not (active() and is_sym(a)):
            return _np.fft.fft(a, n, axis, norm)
        from . import dft
        return dft.fft(a, n, axis, inverse=False, norm=norm)

    def ifft(self, a, n=None, axis=-1, norm=None):
        if not (active() and is_sym(a)):
            return _np.fft.ifft(a, n, axis, norm)
        from . import dft
        return dft.fft(a, n, axis, inverse=True, norm=norm)


class SymMath(types.ModuleType):
    def __init__(self):
        super().__init__('symmath')

    def __getattr__(self, name):
        return getattr(_math, name)

    def sqrt(self, x):
        if isinstance(x, PROXY):
            return _r(x).sqrt()
        if EXACT_CONST_SQRT and active() and isinstance(
                x, (int, float)) and x >= 0:
            return SReal(x).sqrt()
        return _math.sqrt(x)

    def log10(self, x):
        if isinstance(x, PROXY):
            return uf.log10(_r(x))
        return _math.log10(x)

    def log2(self, x):
        if isinstance(x, PROXY):
            return uf.log2(_r(x))
        return _math.log2(x)

    def log(self, x, base=None):
        if isinstance(x, PROXY):
            if base is None:
                return uf.ln(_r(x))
            if base == 10:
                return uf.log10(_r(x))
            if base == 2:
                return uf.log2(_r(x))
            raise OutsideBound('log base %r' % (base, ))
        return _math.log(x) if base is None else _math.log(x, base)

    def cos(self, x):
        if isinstance(x, PROXY):
            return uf.cos(_r(x))
        return _math.cos(x)

    def sin(self, x):
        if isinstance(x, PROXY):
            return uf.sin(_r(x))
        return _math.sin(x)

    def exp(self, x):
        if isinstance(x, PROXY):
            return uf.exp(_r(x))
        return _math.exp(x)

    def floor(self, x):
        if isinstance(x, PROXY):
            return sym_floor(x)
        return _math.floor(x)

    def ceil(self, x):
        if isinstance(x, PROXY):
            return -sym_floor(-x)
        return _math.ceil(x)

    def erfc(self, x):
        if isinstance(x, PROXY):
            return uf.erfc(_r(x))
        return _math.erfc(x)


def sym_float(x=0.0):
    if isinstance(x, (SReal, SInt)):
        return x if isinstance(x, SReal) else SReal(core._coerce_real(x))
    if isinstance(x, SComplex):
        if x.im.p.is_zero():
            return x.re
        raise TypeError("can't convert complex to float")
    return builtins.float(x)


def sym_int(x=0, *a):
    if isinstance(x, SInt):
        return x
    if isinstance(x, SReal):
        if x.is_const():
            return builtins.int(x.const())
        # truncation toward zero
        if x >= 0:
            f = sym_floor(x)
        else:
            f = -sym_floor(-x)
        at = cur().atoms[f.p.monomial_single()[1][0][0]]
        return SInt(at.data) if f.p.monomial_single()[0] == 1 else SInt(
            -at.data)
    return builtins.int(x, *a)


def _real_cls(c):
    if c is sym_float:
        return float
    if c is sym_int:
        return int
    return c


def sym_isinstance(obj, cls):
    if builtins.isinstance(cls, tuple):
        cls = tuple(_real_cls(c) for c in cls)
    else:
        cls = _real_cls(cls)
    if isinstance(obj, SReal):
        if cls is float or (isinstance(cls, tuple) and float in cls):
            return True
    if isinstance(obj, SComplex):
        if cls is complex or (isinstance(cls, tuple) and complex in cls):
            return True
    if isinstance(obj, SInt):
        if cls is int or (isinstance(cls, tuple) and int in cls):
            return True
    return builtins.isinstance(obj, cls)


def sym_abs(x):
    return builtins.abs(x)


def sym_min(*a, **kw):
    if len(a) == 1:
        a = list(a[0])
    if any(isinstance(e, PROXY) for e in a) and not kw:
        m = a[0]
        for e in a[1:]:
            if e < m:
                m = e
        return m
    return builtins.min(*a, **kw)


def sym_max(*a, **kw):
    if len(a) == 1:
        a = list(a[0])
    if any(isinstance(e, PROXY) for e in a) and not kw:
        m = a[0]
        for e in a[1:]:
            if e > m:
                m = e
        return m
    return builtins.max(*a, **kw)


# opt-in idealisation: math.sqrt(<python number>) is the exact algebraic
# number (atom s, s*s = c) while a symbolic context is active
EXACT_CONST_SQRT = False

NP = SymNP()
MATH = SymMath()


class inject:
    """Context manager: patch module globals of the modules under check."""

    def __init__(self, *modules, np=True, math=True, names=()):
        self.modules = modules
        self.np = np
        self.math = math
        self.names = dict(names) if not isinstance(names, dict) else names
        self.saved = []

    def __enter__(self):
        for m in self.modules:
            d = m.__dict__
            patch = {}
            if self.np and 'np' in d and d['np'] is _np:
                patch['np'] = NP
            if self.math and 'math' in d and d['math'] is _math:
                patch['math'] = MATH
            patch.update(self.names)
            for k, v in patch.items():
                self.saved.append((d, k, d.get(k, _MISSING)))
                d[k] = v
        return self

    def __exit__(self, *exc):
        for d, k, old in reversed(self.saved):
            if old is _MISSING:
                d.pop(k, None)
            else:
                d[k] = old
        self.saved = []
        return False


_MISSING = object()

BUILTINS = dict(float=sym_float, int=sym_int, isinstance=sym_isinstance,
                min=sym_min, max=sym_max)
