"""Linearised prover (DESIGN 2.5).

Every monomial is abstracted by a fresh real; hypotheses ``e = 0`` (contracts,
atom definitions) are instantiated by goal-directed monomial multipliers and
asserted as linear equations; z3 (QF_LRA) decides whether the negated goal is
satisfiable.  ``unsat`` is sound for the non-linear claim; ``sat`` is only a
candidate.
"""
import time

import z3

from .core import ONE, Poly, _q, mono_mul, cur


def mono_div(t, d):
    """t / d as a monomial if d divides t (exponent-wise, same sign and not
    larger in magnitude), else None."""
    dd = dict(d)
    out = []
    seen = set()
    for a, e in t:
        f = dd.get(a)
        if f is None:
            out.append((a, e))
            continue
        seen.add(a)
        if f < 0 and e < 0 and f < e:
            # inverse powers: s^-2 q = 1 may be needed at s^-1 (multiplier
            # gets a positive power of the atom)
            out.append((a, e - f))
            continue
        if (f > 0) != (e > 0) or abs(f) > abs(e):
            return None
        if e - f:
            out.append((a, e - f))
    if len(seen) != len(dd):
        return None
    return tuple(out)


def mono_degree(m):
    return sum(abs(e) for _, e in m)


class LinProver:
    def __init__(self, ctx=None, hyps=None, nonneg=None, timeout_ms=60000):
        self.ctx = ctx or cur()
        self.hyps = list(hyps if hyps is not None else
                         [h for _, h in self.ctx.hyps])
        self.nonneg = list(nonneg if nonneg is not None else
                           self.ctx.signs + self.ctx.path_facts)
        self.vars = {}
        self.timeout_ms = timeout_ms
        self.instances = 0
        self.inst_budget_s = 45.0   # wall-clock cap for instantiation

    def var(self, m):
        v = self.vars.get(m)
        if v is None:
            v = z3.Real('m%d' % len(self.vars))
            self.vars[m] = v
        return v

    def lin(self, p):
        terms = []
        for m, c in p.t.items():
            if not m:
                terms.append(_q(c))
            else:
                terms.append(_q(c) * self.var(m))
        if not terms:
            return z3.RealVal(0)
        return z3.Sum(*terms) if len(terms) > 1 else terms[0]

    def instantiate(self, goals, rounds=2, max_deg=8, max_inst=6000):
        """Goal-directed instances of the hypotheses."""
        targets = set()
        for g in goals:
            targets.update(g.t.keys())
        done = set()
        insts = []
        t_start = time.time()
        for _ in range(rounds):
            if time.time() - t_start > self.inst_budget_s:
                break
            new_targets = set()
            for hi, e in enumerate(self.hyps):
                for te in e.t:
                    if not te:
                        continue
                    if time.time() - t_start > self.inst_budget_s:
                        return insts
                    for t in list(targets):
                        m = mono_div(t, te)
                        if m is None or mono_degree(m) > max_deg:
                            continue
                        k = (hi, m)
                        if k in done:
                            continue
                        done.add(k)
                        inst = e * Poly({m: 1}) if m else e
                        insts.append(inst)
                        new_targets.update(inst.t.keys())
                        if len(insts) >= max_inst:
                            return insts
            new_targets -= targets
            if not new_targets:
                break
            targets |= new_targets
        return insts

    def _solver(self, insts, sign_products=False):
        s = z3.SolverFor('QF_LRA')
        s.set('timeout', self.timeout_ms)
        for e in self.hyps:
            s.add(self.lin(e) == 0)
        for e in insts:
            s.add(self.lin(e) == 0)
        for p in self.nonneg:
            s.add(self.lin(p) >= 0)
        if sign_products:
            nn = self.nonneg
            for i in range(len(nn)):
                for j in range(i, len(nn)):
                    s.add(self.lin(nn[i] * nn[j]) >= 0)
        self.instances = len(insts)
        return s

    def prove_zero(self, polys, rounds=2, max_deg=8, max_inst=6000):
        """All polys == 0 ?  -> (status, seconds)"""
        polys = [p for p in polys if not p.is_zero()]
        if not polys:
            return 'unsat', 0.0
        insts = self.instantiate(polys, rounds, max_deg, max_inst)
        s = self._solver(insts)
        s.add(z3.Or(*[self.lin(p) != 0 for p in polys]))
        t0 = time.time()
        r = str(s.check())
        dt = time.time() - t0
        self.ctx.stats.add('lra-abstraction', dt)
        return r, dt

    def derived_facts(self):
        """sound consequences of the sign facts: for sqrt atoms a = sqrt(p),
        b = sqrt(q):  a - b >= 0  =>  p - q >= 0"""
        out = []
        ctx = self.ctx
        for f in self.nonneg:
            if len(f.t) != 2:
                continue
            items = list(f.t.items())
            (m1, c1), (m2, c2) = items
            if c1 + c2 != 0 or len(m1) != 1 or len(m2) != 1 or \
                    m1[0][1] != 1 or m2[0][1] != 1:
                continue
            a1, a2 = ctx.atoms[m1[0][0]], ctx.atoms[m2[0][0]]
            if a1.kind == 'sqrt' and a2.kind == 'sqrt':
                pos, neg = (a1, a2) if c1 > 0 else (a2, a1)
                out.append(pos.data - neg.data)
        return out

    def nonneg_instances(self, goals, facts, max_deg=8, max_inst=3000):
        """goal-directed products fact * monomial with the monomial's sign
        known non-negative from the atoms' declared signs"""
        from .core import _mono_sign
        targets = set()
        for g in goals:
            targets.update(g.t.keys())
        out, done = [], set()
        for fi, f in enumerate(facts):
            for tf in f.t:
                for t in targets:
                    m = mono_div(t, tf) if tf else t
                    if m is None or not m or mono_degree(m) > max_deg:
                        continue
                    if (fi, m) in done:
                        continue
                    done.add((fi, m))
                    sg = _mono_sign(Poly({m: 1}))
                    if sg is None or sg[1] < 0:
                        continue
                    out.append(f * Poly({m: 1}))
                    if len(out) >= max_inst:
                        return out
        return out

    def prove_nonneg(self, polys, rounds=1, max_deg=6, max_inst=4000,
                     sign_products=False, goal_directed=False):
        """All polys >= 0 ?"""
        insts = self.instantiate(polys, rounds, max_deg, max_inst)
        if goal_directed:
            facts = list(self.nonneg) + self.derived_facts()
            self.nonneg = facts + self.nonneg_instances(polys, facts)
        s = self._solver(insts, sign_products)
        s.add(z3.Or(*[self.lin(p) < 0 for p in polys]))
        t0 = time.time()
        r = str(s.check())
        dt = time.time() - t0
        self.ctx.stats.add('lra-abstraction', dt)
        return r, dt


def flatten_polys(x):
    """SReal/SComplex/ndarray/list -> list of Poly (real and imaginary)."""
    import numpy as np
    from .core import SComplex, SReal
    out = []
    if isinstance(x, SReal):
        out.append(x.p)
    elif isinstance(x, SComplex):
        out.extend([x.re.p, x.im.p])
    elif isinstance(x, np.ndarray):
        for e in x.flat:
            out.extend(flatten_polys(e))
    elif isinstance(x, (list, tuple)):
        for e in x:
            out.extend(flatten_polys(e))
    elif isinstance(x, (int, float, complex)):
        c = complex(x)
        from fractions import Fraction
        out.extend([Poly.const(Fraction(c.real)), Poly.const(Fraction(c.imag))])
    else:
        raise TypeError('cannot flatten %r' % (x, ))
    return out


def clear_inverse_atoms(ctx, p):
    """Multiply p by q^e for every inverse atom r = 1/q occurring in p with
    maximal exponent e (q != 0 is part of the atom's definition, so p = 0 iff
    the product is 0)."""
    mult = None
    for a in sorted(p.atoms()):
        at = ctx.atoms[a]
        if at.kind != 'inv':
            continue
        e = max((ee for m in p.t for aa, ee in m if aa == a), default=0)
        if e > 0:
            if len(at.data.t)**e > 20000:
                return p        # too large to clear
            f = at.data**e
            if mult is not None and len(mult.t) * len(f.t) > 20000:
                return p
            mult = f if mult is None else mult * f
    if mult is not None and len(p.t) * len(mult.t) > 300000:
        return p
    return p if mult is None else p * mult


def prove_zero(ctx, name, x, rounds=2, max_deg=8, max_inst=6000, key=None,
               fallback_exact=True, clear_denominators=True, lemma=False,
               max_goal_terms=20000, inst_budget_s=20.0):
    """Obligation: every entry of x is zero (normal form, then LRA
    abstraction, then exact z3)."""
    polys = flatten_polys(x)
    nz = [p for p in polys if not p.is_zero()]
    if not nz:
        ctx.stats.add('normal-form', 0.0)
        return ctx.record(name, 'unsat', 'normal-form', key=key)
    if sum(len(p.t) for p in nz) > max_goal_terms:
        # too large for the linearised prover within reach: candidate only
        return ctx.record(name, 'sat', 'too-large-for-lra', key=key,
                          candidate=True, model={})
    lp = LinProver(ctx)
    lp.inst_budget_s = inst_budget_s
    r, dt = lp.prove_zero(nz, rounds, max_deg, max_inst)
    if r == 'unsat':
        if lemma:   # proved from the hypotheses: may be used as one
            for p in nz:
                ctx.hyps.append(('lemma:' + name, p))
        return ctx.record(name, 'unsat', 'lra-abstraction', key=key,
                          instances=lp.instances)
    if clear_denominators:
        cleared = [clear_inverse_atoms(ctx, p) for p in nz]
        if any(c is not p for c, p in zip(cleared, nz)) and sum(
                len(c.t) for c in cleared) <= max_goal_terms:
            lp = LinProver(ctx)
            lp.inst_budget_s = inst_budget_s
            r2, dt = lp.prove_zero(cleared, rounds, max_deg + 6, max_inst)
            if r2 == 'unsat':
                if lemma:   # q^e p = 0 and q r = 1 (q != 0)  =>  p = 0
                    for p in nz:
                        ctx.hyps.append(('lemma:' + name, p))
                return ctx.record(name, 'unsat',
                                  'lra-abstraction(cleared-denominators)',
                                  key=key, instances=lp.instances)
    if fallback_exact:
        g = z3.And(*[ctx.poly_z3(p) == 0 for p in nz])
        rec = ctx.prove(name, g, backend='z3-nra', key=key)
        rec['candidate'] = (r == 'sat')
        return rec
    w = None
    if not ctx.lazy_decide:
        st = ctx.check(backend='witness')
        if st == 'unsat':
            # the path condition itself is unsatisfiable: the obligation
            # holds vacuously on this (infeasible) path
            return ctx.record(name, 'unsat', 'infeasible-path', key=key)
        if st == 'sat':
            w = ctx.model_values()
    return ctx.record(name, 'unknown' if r != 'sat' else 'sat',
                      'lra-abstraction', key=key, candidate=True,
                      model=w or {})
