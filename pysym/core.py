"""Symbolic scalars, path context and exploration driver.

Real pyphysim code is executed with numpy ``dtype=object`` arrays whose elements
are the proxies defined here.  Branching on a symbolic truth value forks the
path (re-execution DFS, see :func:`explore`).
"""
import itertools
import numbers
import time
from fractions import Fraction

import numpy as np
import z3


# --------------------------------------------------------------------------
# control-flow exceptions (BaseException: the code under test must not
# swallow them with ``except Exception``)
class PathInfeasible(BaseException):
    """The path condition became unsatisfiable (after an assume)."""


class BoundExceeded(BaseException):
    """An exploration bound was hit: the run is inconclusive."""


class Inconclusive(Exception):
    pass


class OutsideBound(Exception):
    """The code asked the facade for something outside the modelled bound."""


_CUR = None


def cur():
    if _CUR is None:
        raise RuntimeError('no symbolic context active')
    return _CUR


def active():
    return _CUR is not None


# --------------------------------------------------------------------------
class Stats:
    def __init__(self):
        self.queries = {}
        self.solver_s = {}
        self.paths = 0
        self.decisions = 0
        self.forks = 0
        self.unknown_feas = 0

    def add(self, backend, dt, n=1):
        self.queries[backend] = self.queries.get(backend, 0) + n
        self.solver_s[backend] = self.solver_s.get(backend, 0.0) + dt

    def merge(self, o):
        for k, v in o.queries.items():
            self.queries[k] = self.queries.get(k, 0) + v
        for k, v in o.solver_s.items():
            self.solver_s[k] = self.solver_s.get(k, 0.0) + v
        self.paths += o.paths
        self.decisions += o.decisions
        self.forks += o.forks
        self.unknown_feas += o.unknown_feas

    def as_dict(self):
        return dict(queries=dict(self.queries),
                    solver_s={k: round(v, 3)
                              for k, v in self.solver_s.items()},
                    paths=self.paths, decisions=self.decisions,
                    forks=self.forks, unknown_feasibility=self.unknown_feas)


# --------------------------------------------------------------------------
# polynomials over atoms, Laurent monomials (negative exponents allowed for
# atoms known to be non-zero)
ONE = ()


def mono_mul(a, b):
    if not a:
        return b
    if not b:
        return a
    out = []
    i = j = 0
    la, lb = len(a), len(b)
    while i < la and j < lb:
        x, y = a[i], b[j]
        if x[0] == y[0]:
            e = x[1] + y[1]
            if e:
                out.append((x[0], e))
            i += 1
            j += 1
        elif x[0] < y[0]:
            out.append(x)
            i += 1
        else:
            out.append(y)
            j += 1
    if i < la:
        out.extend(a[i:])
    if j < lb:
        out.extend(b[j:])
    return tuple(out)


def mono_deg(m):
    return sum(abs(e) for _, e in m)


class Poly:
    __slots__ = ('t', )

    def __init__(self, t=None):
        self.t = t if t is not None else {}

    @staticmethod
    def const(c):
        c = Fraction(c)
        return Poly({ONE: c}) if c else Poly()

    @staticmethod
    def atom(i, e=1):
        return Poly({((i, e), ): Fraction(1)})

    def is_zero(self):
        return not self.t

    def is_const(self):
        return not self.t or (len(self.t) == 1 and ONE in self.t)

    def const_value(self):
        return self.t.get(ONE, Fraction(0))

    def key(self):
        return frozenset(self.t.items())

    def atoms(self):
        s = set()
        for m in self.t:
            for a, _ in m:
                s.add(a)
        return s

    def __add__(self, o):
        if not o.t:
            return self
        if not self.t:
            return o
        t = dict(self.t)
        for m, c in o.t.items():
            v = t.get(m)
            if v is None:
                t[m] = c
            else:
                v = v + c
                if v:
                    t[m] = v
                else:
                    del t[m]
        return Poly(t)

    def __neg__(self):
        return Poly({m: -c for m, c in self.t.items()})

    def __sub__(self, o):
        return self + (-o)

    def scale(self, c):
        if not c:
            return Poly()
        if c == 1:
            return self
        return Poly({m: v * c for m, v in self.t.items()})

    def __mul__(self, o):
        if not self.t or not o.t:
            return Poly()
        if len(self.t) == 1 and ONE in self.t:
            return o.scale(self.t[ONE])
        if len(o.t) == 1 and ONE in o.t:
            return self.scale(o.t[ONE])
        rules = _CUR.sqrule if _CUR is not None else {}
        t = {}
        extra = None
        for m1, c1 in self.t.items():
            for m2, c2 in o.t.items():
                m = mono_mul(m1, m2)
                c = c1 * c2
                if rules and any((a in rules and (e >= 2 or e <= -2))
                                 for a, e in m):
                    r = _reduce_mono(m, c, rules)
                    extra = r if extra is None else extra + r
                    continue
                v = t.get(m)
                if v is None:
                    t[m] = c
                else:
                    v = v + c
                    if v:
                        t[m] = v
                    else:
                        del t[m]
        res = Poly(t)
        if extra is not None:
            res = res + extra
        return res

    def __pow__(self, n):
        assert isinstance(n, int) and n >= 0
        r = Poly.const(1)
        b = self
        while n:
            if n & 1:
                r = r * b
            n >>= 1
            if n:
                b = b * b
        return r

    def monomial_single(self):
        """(coeff, mono) if the polynomial is a single term, else None."""
        if len(self.t) == 1:
            (m, c), = self.t.items()
            return c, m
        return None

    def leading(self):
        m = min(self.t)
        return m, self.t[m]

    def __repr__(self):
        if not self.t:
            return '0'
        parts = []
        for m in sorted(self.t):
            c = self.t[m]
            ms = '*'.join(
                (_atom_name(a) + ('' if e == 1 else '^%d' % e)) for a, e in m)
            if not ms:
                parts.append(str(c))
            elif c == 1:
                parts.append(ms)
            else:
                parts.append('%s*%s' % (c, ms))
        return ' + '.join(parts)


def _atom_name(a):
    if _CUR is not None and a < len(_CUR.atoms):
        return _CUR.atoms[a].name
    return 'a%d' % a


def _reduce_mono(m, c, rules):
    """Rewrite atom^2 -> rule polynomial for sqrt-like atoms."""
    rest = []
    factor = None
    for a, e in m:
        r = rules.get(a)
        if r is not None and (e >= 2 or e <= -2):
            if e > 0:
                q, rem = divmod(e, 2)
                if rem:
                    rest.append((a, 1))
                f = r**q
            else:
                # 1/s^2 = 1/p : only usable when p is a single monomial
                single = r.monomial_single()
                if single is None:
                    rest.append((a, e))
                    continue
                q, rem = divmod(-e, 2)
                if rem:
                    rest.append((a, -1))
                cc, mm = single
                inv = Poly({tuple((x, -y) for x, y in mm): 1 / cc})
                f = inv**q
            factor = f if factor is None else factor * f
        else:
            rest.append((a, e))
    base = Poly({tuple(rest): c})
    if factor is None:
        return Poly({m: c})
    return base * factor


# --------------------------------------------------------------------------
class Atom:
    __slots__ = ('id', 'name', 'kind', 'z', 'zinv', 'data', 'nonzero',
                 'nonneg')

    def __init__(self, id, name, kind, z, data=None):
        self.id = id
        self.name = name
        self.kind = kind
        self.z = z
        self.zinv = None
        self.data = data
        self.nonzero = False
        self.nonneg = False


def _q(c):
    c = Fraction(c)
    if c.denominator == 1:
        return z3.RealVal(c.numerator)
    return z3.Q(c.numerator, c.denominator)


class Ctx:
    """One execution path."""

    def __init__(self, prefix=(), timeout_ms=20000, max_decisions=2000,
                 stats=None, div_mode='fork', concrete=None, logic=None):
        self.prefix = list(prefix)
        self.trace = []          # decisions taken on this path
        self.alts = []           # unexplored prefixes discovered on this path
        self.timeout_ms = timeout_ms
        self.max_decisions = max_decisions
        self.solver = z3.SolverFor(logic) if logic else z3.Solver()
        self.solver.set('timeout', timeout_ms)
        self.stats = stats if stats is not None else Stats()
        self.atoms = []
        self.memo = {}
        self.sqrule = {}
        self.hyps = []           # (name, Poly) meaning poly == 0
        self.signs = []          # Poly >= 0 facts (for the linear prover)
        self.path_facts = []     # Poly >= 0 facts implied by path decisions
        self.inputs = {}         # name -> z3 const
        self.div_mode = div_mode
        self.abs_mode = 'fork'   # or 'atom': |x| as a defined atom (no fork)
        self.cdiv_mode = 'expand'  # or 'atom': 1/w as defined atoms
        self.lazy_decide = False   # fork without feasibility queries
        self.deadline = None       # absolute time after which check() aborts
        self.angle_zero_fork = False  # np.angle(z): fork on z == 0
        self.eig_sorted = False   # Hermitian eig stub: ascending distinct
        self.norm_unit_check = False  # norm(x): return 1 if provably unit
        self.norm_positive = False  # np.linalg.norm(x) > 0 (genericity)
        self.assumptions = []    # textual, for evidence
        self.assumed = []        # z3 terms assumed (for smt2 export)
        self.obligations = []    # dicts
        self.nonzero_keys = set()
        self.nonneg_keys = set()
        self.fresh = itertools.count()
        self.z3mono = {}
        self.notes = []
        self.concrete = concrete  # optional dict name -> value (concrete run)
        self.uf_apps = {}        # fn name -> list of (arg SReal, atom id)
        self.uf_decl = {}

    # -- activation -------------------------------------------------------
    def __enter__(self):
        global _CUR
        self._prev = _CUR
        _CUR = self
        return self

    def __exit__(self, *exc):
        global _CUR
        _CUR = self._prev
        return False

    # -- atoms --------------------------------------------------------------
    def new_atom(self, name, kind, data=None, z=None):
        i = len(self.atoms)
        if z is None:
            z = z3.Real(name)
        a = Atom(i, name, kind, z, data)
        self.atoms.append(a)
        return a

    def real(self, name, lo=None, hi=None, nonzero=False, positive=False):
        """Fresh symbolic real input."""
        a = self.new_atom(name, 'var')
        self.inputs[name] = a.z
        x = SReal(Poly.atom(a.id))
        if self.concrete is not None and name in self.concrete:
            self.add(a.z == _q(Fraction(self.concrete[name])))
        if lo is not None:
            self.add(a.z >= _q(lo))
        if hi is not None:
            self.add(a.z <= _q(hi))
        if positive:
            self.add(a.z > 0)
            a.nonzero = True
            a.nonneg = True
            self.signs.append(x.p)
        if nonzero:
            self.add(a.z != 0)
            a.nonzero = True
        if lo is not None and Fraction(lo) >= 0:
            a.nonneg = True
            self.signs.append(x.p)
            if Fraction(lo) > 0:
                a.nonzero = True
        return x

    def cplx(self, name):
        return SComplex(self.real(name + '_re'), self.real(name + '_im'))

    def integer(self, name, lo=None, hi=None):
        z = z3.Int(name)
        self.inputs[name] = z
        if self.concrete is not None and name in self.concrete:
            self.add(z == int(self.concrete[name]))
        if lo is not None:
            self.add(z >= lo)
        if hi is not None:
            self.add(z <= hi)
        return SInt(z)

    def boolean(self, name):
        z = z3.Bool(name)
        self.inputs[name] = z
        if self.concrete is not None and name in self.concrete:
            self.add(z == bool(self.concrete[name]))
        return SBool(z)

    def bv64(self, name):
        z = z3.BitVec(name, 64)
        self.inputs[name] = z
        return SBV(z)

    # -- solver -----------------------------------------------------------------
    def add(self, term):
        self.solver.add(term)
        self.assumed.append(term)

    def assume(self, cond, text=None):
        """Constrain the path.  `cond` is an SBool / z3 Bool / bool."""
        t = _z3bool(cond)
        if t is True:
            return
        if t is False:
            raise PathInfeasible()
        self.add(t)
        if text:
            self.assumptions.append(text)

    def check(self, *extra, backend='feas'):
        if self.deadline is not None and time.time() > self.deadline:
            raise BoundExceeded('work unit wall-clock cap reached inside a '
                                'path')
        t0 = time.time()
        # z3 does not reliably honour its own timeout on non-linear queries:
        # a watchdog thread interrupts the context (the call then returns
        # `unknown`), which works because ctypes releases the GIL
        limit = t0 + self.timeout_ms / 1000.0 * 1.5 + 5.0
        if self.deadline is not None:
            limit = min(limit, self.deadline + 5.0)
        _watchdog_arm(limit)
        try:
            r = self.solver.check(*extra)
        finally:
            _watchdog_arm(None)
        self.stats.add(backend, time.time() - t0)
        return str(r)

    def mono_z3(self, m):
        z = self.z3mono.get(m)
        if z is not None:
            return z
        fs = []
        for a, e in m:
            at = self.atoms[a]
            if e > 0:
                base = at.z
            else:
                if at.zinv is None:
                    at.zinv = z3.Real(at.name + '__inv')
                    self.add(at.z * at.zinv == 1)
                base = at.zinv
                e = -e
            for _ in range(e):
                fs.append(base)
        if not fs:
            z = z3.RealVal(1)
        elif len(fs) == 1:
            z = fs[0]
        else:
            z = z3.Product(*fs)
        self.z3mono[m] = z
        return z

    def poly_z3(self, p):
        if not p.t:
            return z3.RealVal(0)
        terms = []
        for m, c in p.t.items():
            if not m:
                terms.append(_q(c))
            elif c == 1:
                terms.append(self.mono_z3(m))
            else:
                terms.append(_q(c) * self.mono_z3(m))
        if len(terms) == 1:
            return terms[0]
        return z3.Sum(*terms)

    # -- decisions ----------------------------------------------------------------
    def decide(self, term, rel=None):
        """Truth value of a symbolic Bool on this path (forks)."""
        b = self._decide(term)
        if rel is not None:
            self._record_fact(rel, b)
        return b

    def _record_fact(self, rel, b):
        """polynomial sign facts implied by the decision (for LinProver)"""
        op, d = rel
        if op in ('__gt__', '__ge__'):
            self.path_facts.append(d if b else -d)
        elif op in ('__lt__', '__le__'):
            self.path_facts.append(-d if b else d)
        elif op == '__eq__' and b:
            self.hyps.append(('path:eq', d))
        elif op == '__ne__' and not b:
            self.hyps.append(('path:eq', d))

    def _decide(self, term):
        term = z3.simplify(term)
        if z3.is_true(term):
            return True
        if z3.is_false(term):
            return False
        i = len(self.trace)
        if i >= self.max_decisions:
            raise BoundExceeded('more than %d decisions on one path' %
                                self.max_decisions)
        if i < len(self.prefix):
            b = self.prefix[i]
            assert b is True or b is False, 'trace misaligned: %r' % (b, )
            self.trace.append(b)
            self.add(term if b else z3.Not(term))
            return b
        self.stats.decisions += 1
        if self.lazy_decide:
            # no feasibility query (heavy non-linear path conditions): both
            # outcomes are explored; an infeasible path only adds obligations
            self.stats.forks += 1
            self.alts.append(self.trace + [False])
            self.trace.append(True)
            self.add(term)
            return True
        # every solver-decided outcome is recorded (also forced ones) so that
        # a replayed prefix lines up with the decide() calls one to one
        r_t = self.check(term)
        if r_t == 'unsat':
            self.trace.append(False)
            self.add(z3.Not(term))
            return False
        r_f = self.check(z3.Not(term))
        if r_f == 'unsat':
            if r_t == 'unknown':
                self.stats.unknown_feas += 1
            self.trace.append(True)
            self.add(term)
            return True
        if r_t == 'unknown' or r_f == 'unknown':
            self.stats.unknown_feas += 1
        # both feasible (or unknown): fork
        self.stats.forks += 1
        self.alts.append(self.trace + [False])
        self.trace.append(True)
        self.add(term)
        return True

    def choose_int(self, z, what='index', max_values=64):
        """Case split on the feasible values of an Int term."""
        z = z3.simplify(z)
        if z3.is_int_value(z):
            return z.as_long()
        n = 0
        while True:
            n += 1
            if n > max_values:
                raise BoundExceeded('more than %d values for %s' %
                                    (max_values, what))
            i = len(self.trace)
            if i < len(self.prefix):
                e = self.prefix[i]
                assert isinstance(e, tuple) and e[0] == 'v', \
                    'trace misaligned: %r' % (e, )
                self.trace.append(e)
                if e[2]:
                    self.add(z == e[1])
                    return e[1]
                self.add(z != e[1])
                continue
            r = self.check()
            if r != 'sat':
                if r == 'unsat':
                    raise PathInfeasible()
                raise BoundExceeded('unknown while enumerating ' + what)
            v = self.solver.model().eval(z, model_completion=True).as_long()
            r2 = self.check(z != v)
            if r2 != 'unsat':
                self.stats.forks += 1
                self.alts.append(self.trace + [('v', v, False)])
            self.trace.append(('v', v, True))
            self.add(z == v)
            return v

    # -- definitions ----------------------------------------------------------------
    def ensure_nonzero(self, p, what='divisor'):
        """Establish p != 0 on this path (fork or assume)."""
        if p.is_const():
            if p.const_value() == 0:
                raise ZeroDivisionError('division by zero (%s)' % what)
            return
        k = p.key()
        if k in self.nonzero_keys:
            return
        single = p.monomial_single()
        if single is not None and all(self.atoms[a].nonzero
                                      for a, _ in single[1]):
            self.nonzero_keys.add(k)
            return
        z = self.poly_z3(p)
        if self.div_mode == 'assume':
            self.add(z != 0)
            self.notes.append('assumed non-zero: %r' % (p, ))
        else:
            if not self.decide(z != 0):
                raise ZeroDivisionError('division by zero (%s)' % what)
        self.nonzero_keys.add(k)
        if single is not None:
            for a, _ in single[1]:
                self.atoms[a].nonzero = True

    def inverse(self, p):
        """Poly for 1/p (p established non-zero)."""
        self.ensure_nonzero(p)
        single = p.monomial_single()
        if single is not None:
            c, m = single
            for a, _ in m:
                at = self.atoms[a]
                if at.kind == 'sqrt' and ('sqrtinv', a) not in self.memo \
                        and at.data.monomial_single() is None:
                    # s^-2 * q = 1 for s = sqrt(q) != 0 (s^2 -> q is a
                    # rewrite rule; its reciprocal form is a hypothesis)
                    self.memo[('sqrtinv', a)] = True
                    self.hyps.append(('sqrt:inv', Poly({((a, -2), ): Fraction(
                        1)}) * at.data - Poly.const(1)))
            return Poly({tuple((a, -e) for a, e in m): 1 / c})
        # normalise content
        m0, c0 = p.leading()
        q = p.scale(1 / c0)
        k = ('inv', q.key())
        a = self.memo.get(k)
        if a is None:
            a = self.new_atom('inv%d' % next(self.fresh), 'inv', q)
            a.nonzero = True
            self.memo[k] = a
            self.add(a.z * self.poly_z3(q) == 1)
            self.hyps.append(('inv', Poly.atom(a.id) * q - Poly.const(1)))
        return Poly.atom(a.id).scale(1 / c0)

    def sqrt(self, p, check_sign=True):
        if p.is_const():
            c = p.const_value()
            if c < 0:
                raise ValueError('sqrt of negative constant')
            r = _exact_sqrt(c)
            if r is not None:
                return Poly.const(r)
            content, q = c, Poly.const(1)
        else:
            m0, c0 = p.leading()
            content = abs(c0)
            q = p.scale(1 / content)
        rc = _exact_sqrt(content)
        if q.is_const():
            # sqrt of a non-square rational constant
            k = ('sqrtc', content)
            a = self.memo.get(k)
            if a is None:
                a = self.new_atom('sqrt(%s)' % content, 'sqrt',
                                  Poly.const(content))
                a.nonzero = a.nonneg = True
                self.memo[k] = a
                self.sqrule[a.id] = Poly.const(content)
                self.add(z3.And(a.z > 0, a.z * a.z == _q(content)))
                self.signs.append(Poly.atom(a.id))
            return Poly.atom(a.id)
        if check_sign:
            self.ensure_nonneg(q)
        k = ('sqrt', q.key())
        a = self.memo.get(k)
        if a is None:
            a = self.new_atom('sqrt%d' % next(self.fresh), 'sqrt', q)
            a.nonneg = True
            self.memo[k] = a
            self.sqrule[a.id] = q
            self.add(z3.And(a.z >= 0, a.z * a.z == self.poly_z3(q)))
            self.signs.append(Poly.atom(a.id))
            if q.key() in self.nonzero_keys or _mono_nonzero(self, q):
                a.nonzero = True
        s = Poly.atom(a.id)
        if rc is not None:
            return s.scale(rc)
        return s * self.sqrt(Poly.const(content))

    def cinverse(self, w):
        """1/w for a symbolic complex w != 0 as a pair of defined atoms
        (a, b): w (a + ib) = 1.  Keeps polynomials small where expanding
        conj(w)/|w|^2 would explode."""
        k = ('cinv', w.re.p.key(), w.im.p.key())
        v = self.memo.get(k)
        if v is None:
            n = next(self.fresh)
            a = self.new_atom('cinv%d_re' % n, 'cinv', w)
            b = self.new_atom('cinv%d_im' % n, 'cinv', w)
            A, B = SReal(Poly.atom(a.id)), SReal(Poly.atom(b.id))
            e1 = w.re * A - w.im * B - 1
            e2 = w.re * B + w.im * A
            self.hyps.append(('cinv:re', e1.p))
            self.hyps.append(('cinv:im', e2.p))
            self.add(z3.And(self.poly_z3(e1.p) == 0, self.poly_z3(e2.p) == 0))
            self.notes.append('complex divisor assumed non-zero')
            v = SComplex(A, B)
            self.memo[k] = v
        return v

    def abs_atom(self, p):
        """|p| as a defined atom a: a >= 0, a^2 = p^2, a = +-p by sign"""
        m0, c0 = p.leading()
        q = p.scale(1 / c0)          # |p| = |c0| * |q|
        k = ('abs', q.key())
        a = self.memo.get(k)
        if a is None:
            a = self.new_atom('abs%d' % next(self.fresh), 'abs', q)
            a.nonneg = True
            self.memo[k] = a
            self.sqrule[a.id] = q * q
            z = self.poly_z3(q)
            self.add(z3.And(a.z >= 0, z3.Implies(z >= 0, a.z == z),
                            z3.Implies(z <= 0, a.z == -z)))
            self.signs.append(Poly.atom(a.id))
        return Poly.atom(a.id).scale(abs(c0))

    def ensure_nonneg(self, p, what='sqrt argument'):
        if p.is_const():
            if p.const_value() < 0:
                raise ValueError('negative %s' % what)
            return
        k = p.key()
        if k in self.nonneg_keys:
            return
        single = p.monomial_single()
        if single is not None and single[0] > 0 and all(
                (self.atoms[a].nonneg or e % 2 == 0) for a, e in single[1]):
            self.nonneg_keys.add(k)
            return
        z = self.poly_z3(p)
        if self.div_mode == 'assume':
            self.add(z >= 0)
        else:
            if not self.decide(z >= 0):
                raise ValueError('negative %s' % what)
        self.nonneg_keys.add(k)

    def uf(self, fn, arg):
        """Uninterpreted real function applied to an SReal; memoised."""
        p = arg.p
        k = ('uf', fn, p.key())
        a = self.memo.get(k)
        if a is None:
            f = self.uf_decl.get(fn)
            if f is None:
                f = z3.Function(fn, z3.RealSort(), z3.RealSort())
                self.uf_decl[fn] = f
            z = f(self.poly_z3(p))
            a = self.new_atom('%s(%r)' % (fn, p), 'uf', (fn, p), z=z)
            self.memo[k] = a
            self.uf_apps.setdefault(fn, []).append((arg, a.id))
        return SReal(Poly.atom(a.id)), a

    def int_atom(self, z):
        k = ('int', z.get_id())
        a = self.memo.get(k)
        if a is None:
            a = self.new_atom('toreal(%s)' % z, 'int', z, z=z3.ToReal(z))
            self.memo[k] = a
        return Poly.atom(a.id)

    # -- obligations ---------------------------------------------------------------
    def prove(self, name, goal, backend='z3', timeout_ms=None, key=None):
        """Discharge `goal` (SBool/z3 Bool/bool) under the path condition."""
        t = _z3bool(goal)
        rec = dict(name=name, status=None, by=backend, key=key)
        if t is True:
            rec.update(status='unsat', by='trivial')
            self.stats.add('trivial', 0.0)
        elif t is False and False:
            pass
        else:
            if t is False:
                t = z3.BoolVal(False)
            self.solver.push()
            if timeout_ms:
                self.solver.set('timeout', timeout_ms)
            self.solver.add(z3.Not(t))
            r = self.check(backend='prove')
            if r == 'sat':
                rec['model'] = self.model_values()
            rec['status'] = r
            self.solver.pop()
            if timeout_ms:
                self.solver.set('timeout', self.timeout_ms)
        rec['decisions'] = _trace_repr(self.trace)
        self.obligations.append(rec)
        return rec

    def record(self, name, status, by, **kw):
        rec = dict(name=name, status=status, by=by,
                   decisions=_trace_repr(self.trace))
        rec.update(kw)
        self.obligations.append(rec)
        return rec

    def model_values(self, model=None):
        m = model if model is not None else self.solver.model()
        out = {}
        for n, z in self.inputs.items():
            out[n] = _pyval(m.eval(z, model_completion=True))
        return out

    def witness(self):
        """Some concrete input satisfying the path condition (or None)."""
        if self.check(backend='witness') == 'sat':
            return self.model_values()
        return None

    def smt2(self, goal=None):
        s = z3.Solver()
        for t in self.solver.assertions():
            s.add(t)
        if goal is not None:
            s.add(z3.Not(_z3bool(goal)))
        return s.to_smt2()


def _mono_nonzero(ctx, q):
    s = q.monomial_single()
    return s is not None and all(ctx.atoms[a].nonzero for a, _ in s[1])


def _trace_repr(tr):
    return [('T' if e is True else 'F' if e is False else
             '%s%s%d' % ('=' if e[2] else '!', '', e[1])) for e in tr]


def _exact_sqrt(c):
    c = Fraction(c)
    if c < 0:
        return None
    import math
    n, d = c.numerator, c.denominator
    rn, rd = math.isqrt(n), math.isqrt(d)
    if rn * rn == n and rd * rd == d:
        return Fraction(rn, rd)
    return None


def _pyval(v):
    if z3.is_int_value(v):
        return v.as_long()
    if z3.is_rational_value(v):
        return Fraction(v.numerator_as_long(), v.denominator_as_long())
    if z3.is_algebraic_value(v):
        a = v.approx(30)
        return Fraction(a.numerator_as_long(), a.denominator_as_long())
    if z3.is_true(v):
        return True
    if z3.is_false(v):
        return False
    if z3.is_bv_value(v):
        return v.as_long()
    return str(v)


def _z3bool(c):
    if isinstance(c, SBool):
        c = c.t
    if isinstance(c, (bool, np.bool_)):
        return bool(c)
    if z3.is_true(c):
        return True
    if z3.is_false(c):
        return False
    return c


# --------------------------------------------------------------------------
class SBool:
    __slots__ = ('t', 'rel')

    def __init__(self, t, rel=None):
        self.t = t
        self.rel = rel      # optional (op, Poly d): the comparison d <op> 0

    def __bool__(self):
        return cur().decide(self.t, rel=self.rel)

    def __and__(self, o):
        return SBool(z3.And(self.t, _bt(o)))

    __rand__ = __and__

    def __or__(self, o):
        return SBool(z3.Or(self.t, _bt(o)))

    __ror__ = __or__

    def __invert__(self):
        return SBool(z3.Not(self.t))

    def __xor__(self, o):
        return SBool(z3.Xor(self.t, _bt(o)))

    __rxor__ = __xor__

    def __eq__(self, o):
        return SBool(self.t == _bt(o))

    def __ne__(self, o):
        return SBool(self.t != _bt(o))

    def __hash__(self):
        return id(self)

    def __int__(self):
        return int(bool(self))

    def __index__(self):
        return int(bool(self))

    def __repr__(self):
        return 'SBool(%s)' % self.t


def _bt(o):
    if isinstance(o, SBool):
        return o.t
    if isinstance(o, (bool, np.bool_)):
        return z3.BoolVal(bool(o))
    if z3.is_expr(o):
        return o
    raise TypeError('cannot use %r as symbolic bool' % (o, ))


def And(*xs):
    return SBool(z3.And(*[_bt(x) for x in xs])) if xs else SBool(
        z3.BoolVal(True))


def Or(*xs):
    return SBool(z3.Or(*[_bt(x) for x in xs])) if xs else SBool(
        z3.BoolVal(False))


def Not(x):
    return SBool(z3.Not(_bt(x)))


def Implies(a, b):
    return SBool(z3.Implies(_bt(a), _bt(b)))


# --------------------------------------------------------------------------
_REAL_TYPES = (int, float, Fraction, np.integer, np.floating, bool, np.bool_)


def _coerce_real(x):
    """-> Poly or None"""
    if isinstance(x, SReal):
        return x.p
    if isinstance(x, _REAL_TYPES):
        if isinstance(x, (float, np.floating)):
            x = float(x)
            if x != x or x in (float('inf'), float('-inf')):
                raise OutsideBound('non-finite float literal')
            return Poly.const(Fraction(x))
        if isinstance(x, (bool, np.bool_)):
            return Poly.const(int(x))
        return Poly.const(Fraction(int(x)) if isinstance(x, np.integer)
                          else Fraction(x))
    if isinstance(x, SInt):
        return cur().int_atom(x.z)
    if isinstance(x, SBool):
        return cur().int_atom(z3.If(x.t, 1, 0))
    return None


class SReal:
    """A float modelled as an exact real: polynomial over atoms."""
    __slots__ = ('p', )

    def __init__(self, p):
        if not isinstance(p, Poly):
            p = _coerce_real(p)
        self.p = p

    # numpy / numbers protocol
    @property
    def real(self):
        return self

    @property
    def imag(self):
        return SReal(Poly())

    def item(self):        # numpy scalar protocol
        return self

    def conjugate(self):
        return self

    conj = conjugate

    def is_const(self):
        return self.p.is_const()

    def const(self):
        return self.p.const_value()

    def z3(self):
        return cur().poly_z3(self.p)

    def __add__(self, o):
        if isinstance(o, (SComplex, complex, np.complexfloating)):
            return SComplex(self, 0) + o
        q = _coerce_real(o)
        if q is None:
            return NotImplemented
        return SReal(self.p + q)

    __radd__ = __add__

    def __sub__(self, o):
        if isinstance(o, (SComplex, complex, np.complexfloating)):
            return SComplex(self, 0) - o
        q = _coerce_real(o)
        if q is None:
            return NotImplemented
        return SReal(self.p - q)

    def __rsub__(self, o):
        if isinstance(o, (complex, np.complexfloating)):
            return SComplex(o) - self
        q = _coerce_real(o)
        if q is None:
            return NotImplemented
        return SReal(q - self.p)

    def __mul__(self, o):
        if isinstance(o, (SComplex, complex, np.complexfloating)):
            return SComplex(self, 0) * o
        q = _coerce_real(o)
        if q is None:
            return NotImplemented
        return SReal(self.p * q)

    __rmul__ = __mul__

    def __neg__(self):
        return SReal(-self.p)

    def __pos__(self):
        return self

    def __truediv__(self, o):
        if isinstance(o, (SComplex, complex, np.complexfloating)):
            return SComplex(self, 0) / o
        q = _coerce_real(o)
        if q is None:
            return NotImplemented
        if q.is_const():
            c = q.const_value()
            if c == 0:
                raise ZeroDivisionError('float division by zero')
            return SReal(self.p.scale(1 / c))
        return SReal(self.p * cur().inverse(q))

    def __rtruediv__(self, o):
        if isinstance(o, (complex, np.complexfloating)):
            return SComplex(o) / self
        q = _coerce_real(o)
        if q is None:
            return NotImplemented
        return SReal(q) / self

    def __pow__(self, n):
        if isinstance(n, SReal) and n.is_const():
            n = n.const()
        if isinstance(n, (float, np.floating, Fraction)) and Fraction(
                n).denominator == 1:
            n = int(n)
        if isinstance(n, (int, np.integer)):
            n = int(n)
            if n >= 0:
                return SReal(self.p**n)
            return SReal(Poly.const(1)) / SReal(self.p**(-n))
        if isinstance(n, (float, Fraction)) and Fraction(n) == Fraction(1, 2):
            return self.sqrt()
        if isinstance(n, (float, Fraction)) and Fraction(n) == Fraction(-1,
                                                                        2):
            return 1 / self.sqrt()
        if self.is_const() and isinstance(n, (SReal, float, Fraction)):
            from . import uf
            return uf.const_pow(self.const(), SReal(n))
        raise OutsideBound('SReal ** %r' % (n, ))

    def __rpow__(self, b):
        from . import uf
        if isinstance(b, (int, float, np.integer, np.floating, Fraction)):
            return uf.const_pow(Fraction(b), self)
        return NotImplemented

    def sqrt(self):
        return SReal(cur().sqrt(self.p))

    def __abs__(self):
        if self.p.is_const():
            return SReal(Poly.const(abs(self.p.const_value())))
        single = self.p.monomial_single()
        c = cur()
        if single is not None and all(
                (c.atoms[a].nonneg or e % 2 == 0) for a, e in single[1]):
            return self if single[0] > 0 else -self
        if c.abs_mode == 'atom':
            return SReal(c.abs_atom(self.p))
        if self >= 0:
            return self
        return -self

    # comparisons -> SBool
    def _cmp(self, o, op):
        q = _coerce_real(o)
        if q is None:
            if isinstance(o, SComplex):
                return getattr(SComplex(self, 0), op)(o)
            return NotImplemented
        d = self.p - q
        sg = _mono_sign(d)
        if sg is not None:
            # single monomial whose sign is known from the atoms' declared
            # signs: decided without a solver call
            strict, sign = sg
            res = {'__lt__': sign < 0 and strict, '__le__': sign < 0,
                   '__gt__': sign > 0 and strict, '__ge__': sign > 0,
                   '__eq__': False if strict else None,
                   '__ne__': True if strict else None}[op]
            if op in ('__lt__', '__gt__') and not strict and (
                    (op == '__lt__' and sign < 0) or
                    (op == '__gt__' and sign > 0)):
                res = None      # could be zero
            if op == '__lt__' and sign > 0:
                res = False
            if op == '__gt__' and sign < 0:
                res = False
            if op == '__le__' and sign > 0 and strict:
                res = False
            if op == '__ge__' and sign < 0 and strict:
                res = False
            if op == '__le__' and sign > 0 and not strict:
                res = None
            if op == '__ge__' and sign < 0 and not strict:
                res = None
            if res is not None:
                return SBool(z3.BoolVal(bool(res)))
        if d.is_const():
            c = d.const_value()
            return SBool(z3.BoolVal({
                '__lt__': c < 0, '__le__': c <= 0, '__gt__': c > 0,
                '__ge__': c >= 0, '__eq__': c == 0, '__ne__': c != 0
            }[op]))
        z = cur().poly_z3(d)
        return SBool({
            '__lt__': z < 0, '__le__': z <= 0, '__gt__': z > 0,
            '__ge__': z >= 0, '__eq__': z == 0, '__ne__': z != 0
        }[op], rel=(op, d))

    def __lt__(self, o):
        return self._cmp(o, '__lt__')

    def __le__(self, o):
        return self._cmp(o, '__le__')

    def __gt__(self, o):
        return self._cmp(o, '__gt__')

    def __ge__(self, o):
        return self._cmp(o, '__ge__')

    def __eq__(self, o):
        return self._cmp(o, '__eq__')

    def __ne__(self, o):
        return self._cmp(o, '__ne__')

    def __hash__(self):
        return id(self)

    def __bool__(self):
        return bool(self != 0)

    def __float__(self):
        if self.p.is_const():
            return float(self.p.const_value())
        raise TypeError('float() of a symbolic real (inject module float)')

    def __int__(self):
        if self.p.is_const():
            return int(self.p.const_value())
        raise TypeError('int() of a symbolic real')

    def __round__(self, n=None):
        if self.p.is_const():
            return round(self.p.const_value(), n)
        raise TypeError('round() of a symbolic real')

    # numpy ufunc element methods
    def log10(self):
        from . import uf
        return uf.log10(self)

    def log2(self):
        from . import uf
        return uf.log2(self)

    def log(self):
        from . import uf
        return uf.ln(self)

    def exp(self):
        from . import uf
        return uf.exp(self)

    def cos(self):
        from . import uf
        return uf.cos(self)

    def sin(self):
        from . import uf
        return uf.sin(self)

    def __repr__(self):
        return 'SReal(%r)' % (self.p, )


numbers.Real.register(SReal)


def _mono_sign(p):
    """(strict, sign) for a single-monomial polynomial whose atoms have
    declared signs (nonneg [+ nonzero]); None if unknown."""
    if _CUR is None:
        return None
    single = p.monomial_single()
    if single is None and len(p.t) > 1 and len(p.t) <= 12:
        # a sum of terms that all have the same known sign
        signs = []
        for m, c in p.t.items():
            if not m:
                signs.append((True, 1 if c > 0 else -1))
                continue
            sg = _mono_sign(Poly({m: c}))
            if sg is None:
                return None
            signs.append(sg)
        if all(sg[1] > 0 for sg in signs):
            return any(sg[0] for sg in signs), 1
        if all(sg[1] < 0 for sg in signs):
            return any(sg[0] for sg in signs), -1
        return None
    if single is None or not single[1]:
        return None
    c, m = single
    strict = True
    for a, e in m:
        at = _CUR.atoms[a]
        if e % 2 == 0:
            if not at.nonzero:
                strict = False
            continue
        if not at.nonneg:
            return None
        if not at.nonzero:
            strict = False
    return strict, (1 if c > 0 else -1)


def _coerce_cplx(x):
    if isinstance(x, SComplex):
        return x
    if isinstance(x, (complex, np.complexfloating)):
        x = complex(x)
        return SComplex(SReal(x.real), SReal(x.imag))
    q = _coerce_real(x)
    if q is None:
        return None
    return SComplex(SReal(q), SReal(Poly()))


class SComplex:
    __slots__ = ('re', 'im')

    def __init__(self, re, im=None):
        if im is None and isinstance(re, (complex, np.complexfloating)):
            re, im = complex(re).real, complex(re).imag
        if im is None:
            im = 0
        self.re = re if isinstance(re, SReal) else SReal(re)
        self.im = im if isinstance(im, SReal) else SReal(im)

    @property
    def real(self):
        return self.re

    @property
    def imag(self):
        return self.im

    def item(self):
        return self

    def conjugate(self):
        return SComplex(self.re, -self.im)

    conj = conjugate

    def __add__(self, o):
        o = _coerce_cplx(o)
        if o is None:
            return NotImplemented
        return SComplex(self.re + o.re, self.im + o.im)

    __radd__ = __add__

    def __sub__(self, o):
        o = _coerce_cplx(o)
        if o is None:
            return NotImplemented
        return SComplex(self.re - o.re, self.im - o.im)

    def __rsub__(self, o):
        o = _coerce_cplx(o)
        if o is None:
            return NotImplemented
        return o - self

    def __mul__(self, o):
        o = _coerce_cplx(o)
        if o is None:
            return NotImplemented
        if o.im.p.is_zero():
            return SComplex(self.re * o.re, self.im * o.re)
        if self.im.p.is_zero():
            return SComplex(self.re * o.re, self.re * o.im)
        return SComplex(self.re * o.re - self.im * o.im,
                        self.re * o.im + self.im * o.re)

    __rmul__ = __mul__

    def __neg__(self):
        return SComplex(-self.re, -self.im)

    def __pos__(self):
        return self

    def abs2(self):
        return self.re * self.re + self.im * self.im

    def __truediv__(self, o):
        o = _coerce_cplx(o)
        if o is None:
            return NotImplemented
        if o.im.p.is_zero():
            return SComplex(self.re / o.re, self.im / o.re)
        if _CUR is not None and _CUR.cdiv_mode == 'atom' and not (
                o.re.is_const() and o.im.is_const()):
            return self * _CUR.cinverse(o)
        d = o.abs2()
        n = self * o.conjugate()
        return SComplex(n.re / d, n.im / d)

    def __rtruediv__(self, o):
        o = _coerce_cplx(o)
        if o is None:
            return NotImplemented
        return o / self

    def __pow__(self, n):
        if isinstance(n, (int, np.integer)) or (isinstance(
                n, (float, np.floating)) and float(n).is_integer()):
            n = int(n)
            if n < 0:
                return 1 / (self**(-n))
            r = SComplex(1, 0)
            for _ in range(n):
                r = r * self
            return r
        if self.im.p.is_zero():
            return SComplex(self.re**n, 0)
        raise OutsideBound('SComplex ** %r' % (n, ))

    def __abs__(self):
        if self.im.p.is_zero():
            return abs(self.re)
        if self.re.p.is_zero():
            return abs(self.im)
        return self.abs2().sqrt()

    def sqrt(self):
        if self.im.p.is_zero():
            return SComplex(self.re.sqrt(), 0)
        raise OutsideBound('sqrt of a symbolic complex')

    def exp(self):
        from . import uf
        if self.re.p.is_zero():
            c, s = uf.cos(self.im), uf.sin(self.im)
            return SComplex(c, s)
        e = uf.exp(self.re)
        if self.im.p.is_zero():
            return SComplex(e, 0)
        return SComplex(e * uf.cos(self.im), e * uf.sin(self.im))

    def __eq__(self, o):
        o = _coerce_cplx(o)
        if o is None:
            return NotImplemented
        return And(self.re == o.re, self.im == o.im)

    def __ne__(self, o):
        o = _coerce_cplx(o)
        if o is None:
            return NotImplemented
        return Or(self.re != o.re, self.im != o.im)

    # numpy orders complex numbers lexicographically
    def __lt__(self, o):
        o = _coerce_cplx(o)
        return Or(self.re < o.re, And(self.re == o.re, self.im < o.im))

    def __le__(self, o):
        o = _coerce_cplx(o)
        return Or(self.re < o.re, And(self.re == o.re, self.im <= o.im))

    def __gt__(self, o):
        o = _coerce_cplx(o)
        return Or(self.re > o.re, And(self.re == o.re, self.im > o.im))

    def __ge__(self, o):
        o = _coerce_cplx(o)
        return Or(self.re > o.re, And(self.re == o.re, self.im >= o.im))

    def __hash__(self):
        return id(self)

    def __bool__(self):
        return bool(self != 0)

    def __complex__(self):
        if self.re.is_const() and self.im.is_const():
            return complex(float(self.re.const()), float(self.im.const()))
        raise TypeError('complex() of a symbolic complex')

    def __float__(self):
        if self.im.p.is_zero():
            return float(self.re)
        raise TypeError('float() of a symbolic complex')

    def __repr__(self):
        return 'SComplex(%r, %r)' % (self.re.p, self.im.p)


numbers.Complex.register(SComplex)


# --------------------------------------------------------------------------
class SInt:
    """Python int (unbounded) as a z3 Int term."""
    __slots__ = ('z', )

    def __init__(self, z):
        if isinstance(z, (int, np.integer)):
            z = z3.IntVal(int(z))
        self.z = z

    @staticmethod
    def _c(o):
        if isinstance(o, SInt):
            return o.z
        if isinstance(o, (bool, np.bool_)):
            return z3.IntVal(int(o))
        if isinstance(o, (int, np.integer)):
            return z3.IntVal(int(o))
        if isinstance(o, SBool):
            return z3.If(o.t, 1, 0)
        return None

    def _bin(self, o, f, rev=False):
        z = self._c(o)
        if z is None:
            if isinstance(o, (float, np.floating, Fraction, SReal)):
                a = SReal(_coerce_real(self))
                return NotImplemented if f is None else f(a, o, True)
            return NotImplemented
        return SInt(z3.simplify(f(z, self.z) if rev else f(self.z, z)))

    def __add__(self, o):
        z = self._c(o)
        if z is None:
            return self._real() + o if self._realish(o) else NotImplemented
        return SInt(z3.simplify(self.z + z))

    __radd__ = __add__

    def __sub__(self, o):
        z = self._c(o)
        if z is None:
            return self._real() - o if self._realish(o) else NotImplemented
        return SInt(z3.simplify(self.z - z))

    def __rsub__(self, o):
        z = self._c(o)
        if z is None:
            return o - self._real() if self._realish(o) else NotImplemented
        return SInt(z3.simplify(z - self.z))

    def __mul__(self, o):
        z = self._c(o)
        if z is None:
            return self._real() * o if self._realish(o) else NotImplemented
        return SInt(z3.simplify(self.z * z))

    __rmul__ = __mul__

    def __neg__(self):
        return SInt(z3.simplify(-self.z))

    def __pos__(self):
        return self

    def __abs__(self):
        return SInt(z3.If(self.z >= 0, self.z, -self.z))

    @staticmethod
    def _realish(o):
        return isinstance(o, (float, np.floating, Fraction, SReal, SComplex,
                              complex))

    def _real(self):
        return SReal(cur().int_atom(self.z))

    @staticmethod
    def _floordiv(a, b):
        # Python floor division from z3's Euclidean div
        if z3.is_int_value(b):
            bv = b.as_long()
            if bv == 0:
                raise ZeroDivisionError('integer division or modulo by zero')
            return a / b if bv > 0 else (-a) / (-b)
        return z3.If(b > 0, a / b, (-a) / (-b))

    def __floordiv__(self, o):
        z = self._c(o)
        if z is None:
            return NotImplemented
        self._nz(z)
        return SInt(z3.simplify(self._floordiv(self.z, z)))

    def __rfloordiv__(self, o):
        z = self._c(o)
        if z is None:
            return NotImplemented
        self._nz(self.z)
        return SInt(z3.simplify(self._floordiv(z, self.z)))

    def __mod__(self, o):
        z = self._c(o)
        if z is None:
            return NotImplemented
        self._nz(z)
        return SInt(z3.simplify(self.z - z * self._floordiv(self.z, z)))

    def __rmod__(self, o):
        z = self._c(o)
        if z is None:
            return NotImplemented
        self._nz(self.z)
        return SInt(z3.simplify(z - self.z * self._floordiv(z, self.z)))

    def __divmod__(self, o):
        q = self.__floordiv__(o)
        if q is NotImplemented:
            return NotImplemented
        return q, self.__mod__(o)

    def __rdivmod__(self, o):
        q = self.__rfloordiv__(o)
        if q is NotImplemented:
            return NotImplemented
        return q, self.__rmod__(o)

    @staticmethod
    def _nz(z):
        if z3.is_int_value(z):
            if z.as_long() == 0:
                raise ZeroDivisionError('integer division or modulo by zero')
            return
        if not cur().decide(z != 0):
            raise ZeroDivisionError('integer division or modulo by zero')

    def __truediv__(self, o):
        return self._real() / o

    def __rtruediv__(self, o):
        return o / self._real()

    def __pow__(self, n):
        if isinstance(n, (int, np.integer)) and n >= 0:
            r = SInt(1)
            for _ in range(int(n)):
                r = r * self
            return r
        return NotImplemented

    def _cmp(self, o, op):
        z = self._c(o)
        if z is None:
            if self._realish(o):
                return getattr(self._real(), op)(o)
            return NotImplemented
        a = self.z
        return SBool(z3.simplify({
            '__lt__': a < z, '__le__': a <= z, '__gt__': a > z,
            '__ge__': a >= z, '__eq__': a == z, '__ne__': a != z
        }[op]))

    def __lt__(self, o):
        return self._cmp(o, '__lt__')

    def __le__(self, o):
        return self._cmp(o, '__le__')

    def __gt__(self, o):
        return self._cmp(o, '__gt__')

    def __ge__(self, o):
        return self._cmp(o, '__ge__')

    def __eq__(self, o):
        return self._cmp(o, '__eq__')

    def __ne__(self, o):
        return self._cmp(o, '__ne__')

    def __hash__(self):
        return id(self)

    def __bool__(self):
        return cur().decide(self.z != 0)

    def __index__(self):
        return cur().choose_int(self.z)

    def __int__(self):
        return cur().choose_int(self.z)

    def __float__(self):
        return float(cur().choose_int(self.z))

    def __repr__(self):
        return 'SInt(%s)' % self.z


numbers.Integral.register(SInt)


# --------------------------------------------------------------------------
class SBV:
    """64-bit two's complement integer (numpy int64 element)."""
    __slots__ = ('z', )
    W = 64

    def __init__(self, z):
        if isinstance(z, (int, np.integer)):
            z = z3.BitVecVal(int(z), 64)
        self.z = z

    @staticmethod
    def _c(o):
        if isinstance(o, SBV):
            return o.z
        if isinstance(o, (int, np.integer, bool, np.bool_)):
            return z3.BitVecVal(int(o), 64)
        return None

    def _b(self, o, f):
        z = self._c(o)
        if z is None:
            return NotImplemented
        return SBV(f(self.z, z))

    def __xor__(self, o):
        return self._b(o, lambda a, b: a ^ b)

    __rxor__ = __xor__

    def __and__(self, o):
        return self._b(o, lambda a, b: a & b)

    __rand__ = __and__

    def __or__(self, o):
        return self._b(o, lambda a, b: a | b)

    __ror__ = __or__

    def __add__(self, o):
        return self._b(o, lambda a, b: a + b)

    __radd__ = __add__

    def __sub__(self, o):
        return self._b(o, lambda a, b: a - b)

    def __rsub__(self, o):
        return self._b(o, lambda a, b: b - a)

    def __mul__(self, o):
        return self._b(o, lambda a, b: a * b)

    __rmul__ = __mul__

    def __rshift__(self, o):
        return self._b(o, lambda a, b: a >> b)  # arithmetic, like int64

    def __lshift__(self, o):
        return self._b(o, lambda a, b: a << b)

    def __invert__(self):
        return SBV(~self.z)

    def __neg__(self):
        return SBV(-self.z)

    def _cmp(self, o, f):
        z = self._c(o)
        if z is None:
            return NotImplemented
        return SBool(z3.simplify(f(self.z, z)))

    def __lt__(self, o):
        return self._cmp(o, lambda a, b: a < b)

    def __le__(self, o):
        return self._cmp(o, lambda a, b: a <= b)

    def __gt__(self, o):
        return self._cmp(o, lambda a, b: a > b)

    def __ge__(self, o):
        return self._cmp(o, lambda a, b: a >= b)

    def __eq__(self, o):
        return self._cmp(o, lambda a, b: a == b)

    def __ne__(self, o):
        return self._cmp(o, lambda a, b: a != b)

    def __hash__(self):
        return id(self)

    def __bool__(self):
        return cur().decide(self.z != 0)

    def __repr__(self):
        return 'SBV(%s)' % self.z


# --------------------------------------------------------------------------
def explore(fn, *, timeout_ms=20000, max_paths=100000, max_decisions=2000,
            div_mode='fork', stats=None, root=(), wall_s=None, on_path=None,
            logic=None):
    """Run ``fn(ctx)`` on every feasible path (re-execution DFS).

    Returns a list of path records: dict(trace, outcome, exc, obligations,
    result).  ``fn`` may return any picklable summary.
    """
    stats = stats if stats is not None else Stats()
    stack = [list(root)]
    paths = []
    t0 = time.time()
    while stack:
        prefix = stack.pop()
        if len(paths) >= max_paths:
            raise BoundExceeded('more than %d paths' % max_paths)
        if wall_s is not None and time.time() - t0 > wall_s:
            raise BoundExceeded('exploration wall-clock cap %ss' % wall_s)
        ctx = Ctx(prefix, timeout_ms=timeout_ms, max_decisions=max_decisions,
                  stats=stats, div_mode=div_mode, logic=logic)
        if wall_s is not None:
            ctx.deadline = t0 + wall_s
        rec = dict(outcome='ok', exc=None, result=None)
        with ctx:
            try:
                rec['result'] = fn(ctx)
            except PathInfeasible:
                rec['outcome'] = 'infeasible'
            except BoundExceeded:
                raise
            except Exception as e:  # outcome of the code under test
                rec['outcome'] = 'exception'
                rec['exc'] = e
                rec['exc_type'] = type(e).__name__
        assert len(ctx.trace) >= len(ctx.prefix), 'prefix not consumed'
        stack.extend(ctx.alts)
        rec['trace'] = _trace_repr(ctx.trace)
        rec['obligations'] = ctx.obligations
        rec['notes'] = ctx.notes
        rec['assumptions'] = ctx.assumptions
        rec['ctx'] = ctx
        if rec['outcome'] != 'infeasible':
            stats.paths += 1
            if on_path is not None:
                on_path(rec)
            rec.pop('ctx', None)
            paths.append(rec)
    return paths


def _re_part(x):
    if isinstance(x, SComplex):
        return x.re
    if isinstance(x, (complex, np.complexfloating)):
        return complex(x).real
    return x


def _im_part(x):
    if isinstance(x, SComplex):
        return x.im
    if isinstance(x, (complex, np.complexfloating)):
        return complex(x).imag
    if x is None:
        return None
    return SReal(0) if isinstance(x, SReal) else 0


def _mk_cplx(re, im):
    re = 0 if re is None else re
    im = 0 if im is None else im
    if isinstance(re, SComplex) or isinstance(im, SComplex):
        raise TypeError('complex value assigned to a real/imaginary part')
    if isinstance(re, SReal) or isinstance(im, SReal):
        return SComplex(re, im)
    return complex(re, im)


_WD = {'pid': None, 'until': None}


def _watchdog_arm(until):
    """(dis)arm the per-process z3 watchdog"""
    import os
    import threading
    _WD['until'] = until
    if until is None or _WD['pid'] == os.getpid():
        return

    def loop():
        while True:
            time.sleep(0.5)
            u = _WD['until']
            if u is not None and time.time() > u:
                _WD['until'] = None
                try:
                    z3.main_ctx().interrupt()
                except Exception:      # noqa
                    pass
    _WD['pid'] = os.getpid()
    threading.Thread(target=loop, daemon=True).start()


class SymArray(np.ndarray):
    """object ndarray whose `.real` / `.imag` attributes (get and set) act
    elementwise on the proxies.  A plain object ndarray returns ITSELF for
    `.real` and zeros for `.imag`, which silently mis-models code written as
    `x.real**2 + x.imag**2`."""
    __array_priority__ = 20.0

    def __array_wrap__(self, out_arr, *args, **kw):
        # reductions of a subclass come back as 0-d arrays: hand out the
        # element itself, as a plain object ndarray does
        if getattr(out_arr, 'ndim', 1) == 0:
            return out_arr[()]
        if isinstance(out_arr, np.ndarray) and out_arr.dtype == object:
            return out_arr.view(SymArray)
        return out_arr

    def _parts(self, f):
        base = self.view(np.ndarray)
        out = np.empty(base.shape, dtype=object)
        for idx in np.ndindex(*base.shape):
            out[idx] = f(base[idx])
        return out.view(SymArray)

    @property
    def real(self):
        if self.dtype != object:
            return np.ndarray.real.__get__(self.view(np.ndarray))
        return self._parts(_re_part)

    @real.setter
    def real(self, v):
        if self.dtype != object:
            np.ndarray.real.__set__(self, v)
            return
        base = self.view(np.ndarray)
        v = np.broadcast_to(np.asarray(v, dtype=object), base.shape)
        for idx in np.ndindex(*base.shape):
            base[idx] = _mk_cplx(v[idx], _im_part(base[idx]))

    @property
    def imag(self):
        if self.dtype != object:
            return np.ndarray.imag.__get__(self.view(np.ndarray))
        return self._parts(_im_part)

    @imag.setter
    def imag(self, v):
        if self.dtype != object:
            np.ndarray.imag.__set__(self, v)
            return
        base = self.view(np.ndarray)
        v = np.broadcast_to(np.asarray(v, dtype=object), base.shape)
        for idx in np.ndindex(*base.shape):
            base[idx] = _mk_cplx(_re_part(base[idx]), v[idx])


def as_symarray(a):
    if isinstance(a, np.ndarray) and a.dtype == object and not isinstance(
            a, SymArray):
        return a.view(SymArray)
    return a


def sym_array(ctx, name, shape, kind='real', **kw):
    """Object ndarray of fresh symbolic reals/complex numbers."""
    shape = (shape, ) if isinstance(shape, int) else tuple(shape)
    out = np.empty(shape, dtype=object)
    for idx in np.ndindex(*shape):
        n = name + ''.join('_%d' % i for i in idx)
        out[idx] = ctx.cplx(n) if kind == 'complex' else ctx.real(n, **kw)
    return out.view(SymArray)


def const_array(a):
    """Object array of exact constants from a numeric ndarray."""
    a = np.asarray(a)
    out = np.empty(a.shape, dtype=object)
    for idx in np.ndindex(*a.shape):
        v = a[idx]
        if isinstance(v, (SReal, SComplex)):
            out[idx] = v
        elif np.iscomplexobj(v):
            out[idx] = SComplex(complex(v))
        else:
            out[idx] = SReal(v)
    return out.view(SymArray)
