"""Environment stubs for numpy.linalg: fresh symbolic results constrained by
the documented contract of each routine (DESIGN 2.5).

Contract equations are registered as polynomial hypotheses (``ctx.hyps``) for
the linearised prover; only cheap sign/order facts go to the path solver.
Results are memoised on the normal form of the argument (numpy is
deterministic).  Genericity assumptions (full rank, non-zero singular values)
are recorded in ``ctx.notes`` / listed by the harness.
"""
import numpy as np
import z3

from .core import Poly, SComplex, SReal, SymArray, cur, const_array


def _c(e):
    if isinstance(e, SComplex):
        return e
    if isinstance(e, SReal):
        return SComplex(e, SReal(Poly()))
    if isinstance(e, (complex, np.complexfloating)):
        return SComplex(complex(e))
    return SComplex(SReal(e), SReal(Poly()))


def as_cmat(a):
    a = np.asarray(a, dtype=object) if not (isinstance(a, np.ndarray) and
                                            a.dtype == object) else a
    out = np.empty(a.shape, dtype=object)
    for idx in np.ndindex(*a.shape):
        out[idx] = _c(a[idx])
    return out


def mat_key(a):
    return (a.shape, tuple((e.re.p.key(), e.im.p.key()) for e in a.flat))


def herm(a):
    a = as_cmat(a)
    out = np.empty(a.shape[::-1], dtype=object)
    for i in range(a.shape[0]):
        for j in range(a.shape[1]):
            out[j, i] = a[i, j].conjugate()
    return out


def is_hermitian(a):
    if a.shape[0] != a.shape[1]:
        return False
    n = a.shape[0]
    for i in range(n):
        for j in range(i, n):
            x, y = a[i, j], a[j, i]
            if (x.re.p - y.re.p).t or (x.im.p + y.im.p).t:
                return False
    return True


def is_real(a):
    return all(not e.im.p.t for e in a.flat)


def fresh_cmat(ctx, name, shape, real=False, hermitian=False):
    out = np.empty(shape, dtype=object)
    tag = '%s%d' % (name, next(ctx.fresh))
    for i in range(shape[0]):
        for j in range(shape[1]):
            if hermitian and j < i:
                out[i, j] = out[j, i].conjugate()
                continue
            re = ctx.real('%s_%d_%d_re' % (tag, i, j))
            if real or (hermitian and i == j):
                im = SReal(Poly())
            else:
                im = ctx.real('%s_%d_%d_im' % (tag, i, j))
            out[i, j] = SComplex(re, im)
    return out.view(SymArray)


def eye(n):
    out = np.empty((n, n), dtype=object)
    for i in range(n):
        for j in range(n):
            out[i, j] = SComplex(1 if i == j else 0, 0)
    return out


def mm(*ms):
    r = ms[0]
    for m in ms[1:]:
        r = np.dot(r, m)
    return r


def add_hyp_zero(ctx, name, m):
    """every entry of the complex matrix m is zero"""
    for e in np.asarray(m, dtype=object).flat:
        e = _c(e)
        if e.re.p.t:
            ctx.hyps.append((name, e.re.p))
        if e.im.p.t:
            ctx.hyps.append((name, e.im.p))


def _ret(a, like_real):
    """return real SReal entries if the problem is real"""
    if not like_real:
        return a.view(SymArray) if isinstance(a, np.ndarray) and \
            a.dtype == object else a
    out = np.empty(a.shape, dtype=object)
    for idx in np.ndindex(*a.shape):
        out[idx] = a[idx].re
    return out.view(SymArray)


# ---------------------------------------------------------------------------
def inv(a):
    ctx = cur()
    A = as_cmat(a)
    n = A.shape[0]
    if A.ndim != 2 or A.shape[1] != n:
        raise np.linalg.LinAlgError('Last 2 dimensions of the array must be '
                                    'square')
    k = ('inv', mat_key(A))
    if k in ctx.memo:
        return ctx.memo[k]
    real = is_real(A)
    if n == 1:
        X = np.empty((1, 1), dtype=object)
        X[0, 0] = _c(1) / A[0, 0]
    else:
        X = fresh_cmat(ctx, 'inv', (n, n), real=real,
                       hermitian=is_hermitian(A))
        add_hyp_zero(ctx, 'inv:AX=I', mm(A, X) - eye(n))
        add_hyp_zero(ctx, 'inv:XA=I', mm(X, A) - eye(n))
        ctx.notes.append('inv(%dx%d): argument assumed non-singular' % (n, n))
    X = _ret(X, real)
    ctx.memo[k] = X
    return X


def pinv(a):
    ctx = cur()
    A = as_cmat(a)
    m, n = A.shape
    k = ('pinv', mat_key(A))
    if k in ctx.memo:
        return ctx.memo[k]
    real = is_real(A)
    if m == n:
        X = as_cmat(inv(A))
    else:
        X = fresh_cmat(ctx, 'pinv', (n, m), real=real)
        Ah = herm(A)
        if m > n:   # full column rank
            add_hyp_zero(ctx, 'pinv:XA=I', mm(X, A) - eye(n))
            add_hyp_zero(ctx, 'pinv:AhAX=Ah', mm(Ah, A, X) - Ah)
        else:       # full row rank
            add_hyp_zero(ctx, 'pinv:AX=I', mm(A, X) - eye(m))
            add_hyp_zero(ctx, 'pinv:XAAh=Ah', mm(X, A, Ah) - Ah)
        ctx.notes.append('pinv(%dx%d): argument assumed to have full rank' %
                         (m, n))
    X = _ret(X, real)
    ctx.memo[k] = X
    return X


def solve(a, b):
    ctx = cur()
    A = as_cmat(a)
    B = as_cmat(b)
    vec = B.ndim == 1
    if vec:
        B = B.reshape(-1, 1)
    n = A.shape[0]
    k = ('solve', mat_key(A), mat_key(B))
    if k in ctx.memo:
        X = ctx.memo[k]
    else:
        real = is_real(A) and is_real(B)
        if n == 1:
            X = np.empty(B.shape, dtype=object)
            for j in range(B.shape[1]):
                X[0, j] = B[0, j] / A[0, 0]
        else:
            X = fresh_cmat(ctx, 'solve', B.shape, real=real)
            add_hyp_zero(ctx, 'solve:AX=B', mm(A, X) - B)
            ctx.notes.append('solve(%dx%d): matrix assumed non-singular' %
                             (n, n))
        X = _ret(X, real)
        ctx.memo[k] = X
    return X[:, 0] if vec else X


def register_svd(a, U, S, Vh):
    """Harness-provided decomposition a = U diag(S) Vh (returned by svd)."""
    ctx = cur()
    ctx.memo[('svd', mat_key(as_cmat(a)))] = (U, S, Vh)


def unitary(ctx, name, n, real=False):
    """fresh n x n unitary matrix (contract: UhU = UUh = I)"""
    U = fresh_cmat(ctx, name, (n, n), real=real)
    Uh = herm(U)
    add_hyp_zero(ctx, name + ':UhU=I', mm(Uh, U) - eye(n))
    add_hyp_zero(ctx, name + ':UUh=I', mm(U, Uh) - eye(n))
    return U


def singular_values(ctx, name, k, strict=False):
    S = np.empty(k, dtype=object)
    for i in range(k):
        S[i] = ctx.real('%s%d_%d' % (name, next(ctx.fresh), i),
                        positive=True)
    for i in range(k - 1):
        ctx.add((S[i].z3() > S[i + 1].z3()) if strict else
                (S[i].z3() >= S[i + 1].z3()))
    return S


def svd(a, full_matrices=True, compute_uv=True):
    ctx = cur()
    A = as_cmat(a)
    m, n = A.shape
    kk = min(m, n)
    k = ('svd', mat_key(A))
    real = is_real(A)
    if k not in ctx.memo:
        U = unitary(ctx, 'svdU', m, real)
        V = unitary(ctx, 'svdV', n, real)
        Vh = herm(V)
        S = singular_values(ctx, 'svdS', kk)
        Sig = np.empty((m, n), dtype=object)
        for i in range(m):
            for j in range(n):
                Sig[i, j] = _c(S[i]) if i == j else _c(0)
        add_hyp_zero(ctx, 'svd:A=USVh', mm(U, Sig, Vh) - A)
        add_hyp_zero(ctx, 'svd:AV=US', mm(A, V) - mm(U, Sig))
        add_hyp_zero(ctx, 'svd:AhU=VSt', mm(herm(A), U) - mm(V, herm(Sig)))
        ctx.notes.append('svd(%dx%d): singular values assumed > 0 (full '
                         'rank)' % (m, n))
        ctx.memo[k] = (_ret(U, real), S, _ret(Vh, real))
    U, S, Vh = ctx.memo[k]
    if not compute_uv:
        return S
    if not full_matrices:
        return U[:, :kk], S, Vh[:kk, :]
    return U, S, Vh


def register_eig(a, D, V):
    ctx = cur()
    ctx.memo[('eig', mat_key(as_cmat(a)))] = (D, V)


def eig(a):
    ctx = cur()
    A = as_cmat(a)
    n = A.shape[0]
    k = ('eig', mat_key(A))
    if k not in ctx.memo:
        real = is_real(A)
        h = is_hermitian(A)
        if h:
            V = unitary(ctx, 'eigV', n, real)
            D = np.empty(n, dtype=object)
            tagd = next(ctx.fresh)
            for i in range(n):
                if ctx.eig_sorted and i > 0:
                    # ascending, distinct: D[i] = D[i-1] + (positive gap), so
                    # order comparisons are decided from the declared signs
                    D[i] = D[i - 1] + ctx.real('eigGap%d_%d' % (tagd, i),
                                               positive=True)
                else:
                    D[i] = ctx.real('eigD%d_%d' % (tagd, i))
            if ctx.eig_sorted:
                ctx.notes.append('eig stub returns distinct eigenvalues in '
                                 'ascending order (assumption)')
            Dm = np.empty((n, n), dtype=object)
            for i in range(n):
                for j in range(n):
                    Dm[i, j] = _c(D[i]) if i == j else _c(0)
            add_hyp_zero(ctx, 'eig:AV=VD', mm(A, V) - mm(V, Dm))
            add_hyp_zero(ctx, 'eig:A=VDVh', mm(V, Dm, herm(V)) - A)
            ctx.memo[k] = (D, _ret(V, real))
        else:
            V = fresh_cmat(ctx, 'eigV', (n, n))
            W = fresh_cmat(ctx, 'eigVinv', (n, n))
            D = np.empty(n, dtype=object)
            for i in range(n):
                D[i] = ctx.cplx('eigD%d_%d' % (next(ctx.fresh), i))
            Dm = np.empty((n, n), dtype=object)
            for i in range(n):
                for j in range(n):
                    Dm[i, j] = D[i] if i == j else _c(0)
            add_hyp_zero(ctx, 'eig:AV=VD', mm(A, V) - mm(V, Dm))
            add_hyp_zero(ctx, 'eig:WV=I', mm(W, V) - eye(n))
            add_hyp_zero(ctx, 'eig:VW=I', mm(V, W) - eye(n))
            ctx.notes.append('eig(%dx%d): assumed diagonalisable' % (n, n))
            ctx.memo[k] = (D, V)
    return ctx.memo[k]


def eigh(a):
    D, V = eig(a)
    return D, V


def qr(a, mode='reduced'):
    ctx = cur()
    A = as_cmat(a)
    m, n = A.shape
    kk = min(m, n)
    k = ('qr', mat_key(A))
    if k not in ctx.memo:
        real = is_real(A)
        Q = fresh_cmat(ctx, 'qrQ', (m, kk), real=real)
        R = np.empty((kk, n), dtype=object)
        tag = 'qrR%d' % next(ctx.fresh)
        for i in range(kk):
            for j in range(n):
                if j < i:
                    R[i, j] = _c(0)
                elif real:
                    R[i, j] = _c(ctx.real('%s_%d_%d' % (tag, i, j)))
                else:
                    R[i, j] = ctx.cplx('%s_%d_%d' % (tag, i, j))
        add_hyp_zero(ctx, 'qr:QR=A', mm(Q, R) - A)
        add_hyp_zero(ctx, 'qr:QhQ=I', mm(herm(Q), Q) - eye(kk))
        ctx.memo[k] = (_ret(Q, real), _ret(R, real))
    return ctx.memo[k]


def matrix_rank(a):
    ctx = cur()
    A = np.asarray(a, dtype=object)
    ctx.notes.append('matrix_rank: generic (full) rank assumed')
    if A.ndim < 2:
        return 1
    return min(A.shape)


def det(a):
    A = np.asarray(a, dtype=object)
    n = A.shape[0]
    if n == 1:
        return A[0, 0]
    tot = None
    for j in range(n):
        minor = np.delete(np.delete(A, 0, axis=0), j, axis=1)
        t = A[0, j] * det(minor)
        if j % 2:
            t = -t
        tot = t if tot is None else tot + t
    return tot


def block_diag(*arrs):
    arrs = [np.atleast_2d(np.asarray(a, dtype=object)) for a in arrs]
    r = sum(a.shape[0] for a in arrs)
    c = sum(a.shape[1] for a in arrs)
    out = np.empty((r, c), dtype=object)
    zero = SReal(Poly())
    out.fill(zero)
    i = j = 0
    for a in arrs:
        out[i:i + a.shape[0], j:j + a.shape[1]] = a
        i += a.shape[0]
        j += a.shape[1]
    return out
