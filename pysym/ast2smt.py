"""Engine B: translate a small integer-loop Python function into one bit-vector
formula (loop unwinding with ite state merging and an unwinding assertion).

Supported subset: int locals; ``while``/``if``/``return``/``raise``;
``+ - & | ^ >> <<``; comparisons; ``and/or/not``; augmented assignment.
The source is read from the function object on every run.
"""
import ast
import inspect
import textwrap

import z3

W = 64


class Unsupported(Exception):
    pass


class _State:
    def __init__(self, vars, ret_set, ret_val, raised):
        self.vars = vars
        self.ret_set = ret_set
        self.ret_val = ret_val
        self.raised = raised

    def copy(self):
        return _State(dict(self.vars), self.ret_set, self.ret_val,
                      self.raised)


def _merge(c, a, b):
    """ite(c, a, b) state-wise"""
    vs = {}
    for k in set(a.vars) | set(b.vars):
        x, y = a.vars.get(k), b.vars.get(k)
        if x is None:
            x = y
        if y is None:
            y = x
        vs[k] = x if x is y else z3.If(c, x, y)
    return _State(vs, z3.If(c, a.ret_set, b.ret_set),
                  z3.If(c, a.ret_val, b.ret_val),
                  z3.If(c, a.raised, b.raised))


def _bv(v):
    if isinstance(v, bool):
        return z3.BitVecVal(int(v), W)
    if isinstance(v, int):
        return z3.BitVecVal(v, W)
    return v


def _truth(v):
    if z3.is_bool(v):
        return v
    return v != z3.BitVecVal(0, W)


class Translator:
    def __init__(self, fn, unwind):
        fn = getattr(fn, 'py_func', fn)
        self.fn = fn
        self.src = textwrap.dedent(inspect.getsource(fn))
        tree = ast.parse(self.src)
        self.fdef = next(n for n in tree.body
                         if isinstance(n, ast.FunctionDef))
        self.unwind = unwind
        self.unwinding_assertions = []
        self.loops = 0

    def expr(self, e, st):
        if isinstance(e, ast.Name):
            if e.id not in st.vars:
                raise Unsupported('unknown name ' + e.id)
            return st.vars[e.id]
        if isinstance(e, ast.Constant):
            if isinstance(e.value, (bool, int)):
                return _bv(e.value)
            raise Unsupported('constant %r' % (e.value, ))
        if isinstance(e, ast.BinOp):
            a, b = _bv(self.expr(e.left, st)), _bv(self.expr(e.right, st))
            if z3.is_bool(a) or z3.is_bool(b):
                raise Unsupported('arithmetic on booleans')
            op = type(e.op)
            if op is ast.Add:
                return a + b
            if op is ast.Sub:
                return a - b
            if op is ast.BitAnd:
                return a & b
            if op is ast.BitOr:
                return a | b
            if op is ast.BitXor:
                return a ^ b
            if op is ast.RShift:
                return a >> b
            if op is ast.LShift:
                return a << b
            if op is ast.Mult:
                return a * b
            raise Unsupported('operator ' + op.__name__)
        if isinstance(e, ast.UnaryOp):
            v = self.expr(e.operand, st)
            if isinstance(e.op, ast.Not):
                return z3.Not(_truth(v))
            if isinstance(e.op, ast.USub):
                return -_bv(v)
            if isinstance(e.op, ast.Invert):
                return ~_bv(v)
            raise Unsupported('unary')
        if isinstance(e, ast.Compare):
            if len(e.ops) != 1:
                raise Unsupported('chained comparison')
            a = _bv(self.expr(e.left, st))
            b = _bv(self.expr(e.comparators[0], st))
            op = type(e.ops[0])
            return {ast.Lt: lambda: a < b, ast.LtE: lambda: a <= b,
                    ast.Gt: lambda: a > b, ast.GtE: lambda: a >= b,
                    ast.Eq: lambda: a == b, ast.NotEq: lambda: a != b}[op]()
        if isinstance(e, ast.BoolOp):
            vs = [_truth(self.expr(v, st)) for v in e.values]
            return z3.And(*vs) if isinstance(e.op, ast.And) else z3.Or(*vs)
        raise Unsupported(ast.dump(e)[:80])

    def block(self, stmts, st):
        for s in stmts:
            st = self.stmt(s, st)
        return st

    def stmt(self, s, st):
        live = z3.And(z3.Not(st.ret_set), z3.Not(st.raised))
        if isinstance(s, ast.Expr):
            if isinstance(s.value, ast.Constant):
                return st  # docstring
            raise Unsupported('expression statement')
        if isinstance(s, ast.Assign):
            if len(s.targets) != 1 or not isinstance(s.targets[0], ast.Name):
                raise Unsupported('assignment target')
            v = self.expr(s.value, st)
            st = st.copy()
            st.vars[s.targets[0].id] = v
            return st
        if isinstance(s, ast.AugAssign):
            if not isinstance(s.target, ast.Name):
                raise Unsupported('augassign target')
            v = self.expr(ast.BinOp(left=ast.Name(id=s.target.id),
                                    op=s.op, right=s.value), st)
            st = st.copy()
            st.vars[s.target.id] = v
            return st
        if isinstance(s, ast.Return):
            v = _bv(self.expr(s.value, st)) if s.value is not None else _bv(0)
            if z3.is_bool(v):
                v = z3.If(v, _bv(1), _bv(0))
            st = st.copy()
            st.ret_val = z3.If(live, v, st.ret_val)
            st.ret_set = z3.Or(st.ret_set, live)
            return st
        if isinstance(s, ast.Raise):
            st = st.copy()
            st.raised = z3.Or(st.raised, live)
            return st
        if isinstance(s, ast.If):
            c = _truth(self.expr(s.test, st))
            a = self.block(s.body, st.copy())
            b = self.block(s.orelse, st.copy())
            return _merge(c, a, b)
        if isinstance(s, ast.While):
            if s.orelse:
                raise Unsupported('while-else')
            self.loops += 1
            for _ in range(self.unwind):
                c = z3.And(_truth(self.expr(s.test, st)),
                           z3.Not(st.ret_set), z3.Not(st.raised))
                body = self.block(s.body, st.copy())
                st = _merge(c, body, st)
            c = z3.And(_truth(self.expr(s.test, st)), z3.Not(st.ret_set),
                       z3.Not(st.raised))
            self.unwinding_assertions.append(z3.Not(c))
            return st
        if isinstance(s, ast.Pass):
            return st
        raise Unsupported(type(s).__name__)

    def apply(self, *args):
        """-> (return value term, raised term, [unwinding assertions])"""
        names = [a.arg for a in self.fdef.args.args]
        if len(names) != len(args):
            raise Unsupported('arity')
        st = _State(dict(zip(names, [_bv(a) for a in args])),
                    z3.BoolVal(False), _bv(0), z3.BoolVal(False))
        self.unwinding_assertions = []
        st = self.block(self.fdef.body, st)
        return (z3.simplify(st.ret_val), z3.simplify(st.raised),
                list(self.unwinding_assertions))


def popcount_ref(x):
    """Reference population count of a bit-vector (sum of bits, 7-bit adders
    zero-extended to the vector width)."""
    w = x.size()
    k = max(1, w.bit_length())
    s = z3.Sum(*[z3.ZeroExt(k - 1, z3.Extract(i, i, x)) for i in range(w)])
    return z3.ZeroExt(w - k, s) if w > k else z3.Extract(w - 1, 0, s)


def split_single_loop(tr):
    """(statements before, the While node, statements after) of a function
    whose body has exactly one top-level while loop."""
    body = tr.fdef.body
    idx = [i for i, s in enumerate(body) if isinstance(s, ast.While)]
    if len(idx) != 1:
        raise Unsupported('expected exactly one top-level loop')
    i = idx[0]
    return body[:i], body[i], body[i + 1:]


def run_block(tr, stmts, vars):
    st = _State(dict(vars), z3.BoolVal(False), _bv(0), z3.BoolVal(False))
    return tr.block(stmts, st)


def mux_table(values, index, width):
    """Balanced if-then-else tree: values[index] (index a bit-vector)."""
    n = len(values)
    nbits = max(1, (n - 1).bit_length())

    def rec(lo, bit):
        if bit < 0:
            v = values[lo] if lo < n else 0
            return z3.BitVecVal(int(v), width)
        hi = lo + (1 << bit)
        a = rec(lo, bit - 1)
        if hi >= n:
            return a
        b = rec(hi, bit - 1)
        return z3.If(z3.Extract(bit, bit, index) == 1, b, a)

    return rec(0, nbits - 1)
