"""Check driver: work distribution, verdict protocol, replay, evidence.

A check module (checks/cNN.py) defines ``PROPERTY`` and ``HARNESSES`` (list of
:class:`Harness`).  See DESIGN.md section 3.
"""
import hashlib
import importlib
import inspect
import json
import multiprocessing as mp
import os
import random
import sys
import time
import traceback
from fractions import Fraction

VERIF = os.path.dirname(os.path.dirname(os.path.abspath(__file__)))
EXIT_OK, EXIT_VIOLATION, EXIT_INCONCLUSIVE = 0, 1, 2


class ConcreteViolation(Exception):
    """Raised by Harness.concrete(): a concrete run of the REAL code through
    the public API violated the oracle.  It is reported as a violation (it is
    already a replayed counterexample); `key` identifies it for
    known_findings."""

    def __init__(self, key, detail=None):
        super().__init__(key)
        self.key = key
        self.detail = detail


class Harness:
    """One symbolic harness.  Subclass or instantiate with callables."""
    name = ''
    modules = ()        # names of /repo modules whose np/math get the facade
    builtins = True     # inject float/int/isinstance/min/max too
    functions = ()      # 'module:qualname' of the real functions executed
    bounds = ''
    stubs = ()
    assumptions = ()
    outside = ()
    div_mode = 'fork'
    logic = None        # e.g. 'QF_BV' to use a specialised z3 solver
    exact_const_sqrt = False   # math.sqrt(2) etc. as exact algebraic numbers
    reach = 'solver'    # vacuity guard: 'solver' (model of a completed path)
    #                     or 'concrete' (the concrete() runs; for heavy NRA)
    timeout_ms = {'quick': 20000, 'thorough': 60000}
    max_paths = 200000
    unit_wall_s = {'quick': 240, 'thorough': 1500}
    units_per_process = 1     # >1: consecutive small units share a fork

    def configs(self, tier):
        return [{}]

    def sym(self, ctx, cfg):
        raise NotImplementedError

    def expected_exception(self, cfg, exc):
        """True if `exc` escaping sym() is a legitimate outcome."""
        return False

    def replay(self, cfg, name, model):
        """Re-run on the real code with concrete values.

        Returns dict(reproduced=bool, key=str, detail=...)."""
        return dict(reproduced=False, key=None, detail='no replay defined')

    def concrete(self, cfg, rng):
        """Differential run on plain floats; returns number of cases."""
        return 0


def _jsonable(x):
    if isinstance(x, Fraction):
        return float(x) if x.denominator != 1 else int(x)
    if isinstance(x, dict):
        return {str(k): _jsonable(v) for k, v in x.items()}
    if isinstance(x, (list, tuple)):
        return [_jsonable(v) for v in x]
    if isinstance(x, (int, float, str, bool)) or x is None:
        return x
    try:
        import numpy as np
        if isinstance(x, np.generic):
            return x.item()
        if isinstance(x, np.ndarray):
            return _jsonable(x.tolist())
    except Exception:
        pass
    if isinstance(x, complex):
        return [x.real, x.imag]
    return repr(x)


def _model_jsonable(m):
    return {k: (str(v) if isinstance(v, Fraction) else v)
            for k, v in m.items()}


def model_floats(model):
    out = {}
    for k, v in model.items():
        if isinstance(v, Fraction):
            out[k] = float(v)
        elif isinstance(v, str):
            try:
                out[k] = float(Fraction(v))
            except Exception:
                out[k] = v
        else:
            out[k] = v
    return out


def model_fractions(model):
    out = {}
    for k, v in model.items():
        if isinstance(v, str):
            try:
                out[k] = Fraction(v)
            except Exception:
                out[k] = v
        else:
            out[k] = v
    return out


def _load(prop):
    sys.path.insert(0, VERIF)
    mod = importlib.import_module('checks.' + prop.lower())
    return mod


def _unit(args):
    """Worker: explore one (harness, cfg) unit."""
    prop, hidx, cidx, cfg, tier, seed = args[:6]
    concrete_only = len(args) > 6 and args[6] == 'concrete-only'
    t0 = time.time()
    out = dict(hidx=hidx, cidx=cidx, cfg=cfg, error=None, sat=[], paths=0,
               decisions=0, obligations=0, discharged=0, by={}, unknown=[],
               reach=0, reach_unknown=0, degraded=[], samples=[], exceptions={}, concrete=0, stats=None,
               notes=[])
    try:
        from pysym import core, npfacade, repo_module
        mod = _load(prop)
        h = mod.HARNESSES[hidx]
        out['name'] = h.name
        mods = [repo_module(m) for m in h.modules]
        st = core.Stats()
        seen_sat = set()
        sat_count = {}

        def on_path(rec):
            ctx = rec['ctx']
            if rec['outcome'] == 'exception':
                exc = rec['exc']
                et = type(exc).__name__
                out['exceptions'][et] = out['exceptions'].get(et, 0) + 1
                if isinstance(exc, core.OutsideBound) or \
                        _engine_limitation(exc):
                    # the code asked numpy for something the symbolic layer
                    # cannot do (C routine on object arrays, missing facade):
                    # not a property outcome.  The unit is DEGRADED: it is
                    # accepted only if its concrete oracle runs pass.
                    msg = '%s: %s' % (et, str(exc)[:200])
                    if msg not in out['degraded'] and len(
                            out['degraded']) < 5:
                        out['degraded'].append(msg)
                elif not h.expected_exception(cfg, exc):
                    nm = 'no-exception:' + et
                    if nm not in seen_sat:
                        seen_sat.add(nm)
                        w = ctx.witness()
                        tb = ''.join(traceback.format_exception(
                            type(exc), exc, exc.__traceback__)[-4:])
                        out['sat'].append(dict(
                            name=nm, model=_model_jsonable(w or {}),
                            trace=rec['trace'], detail=str(exc)[:300],
                            tb=tb[-1500:],
                            candidate=bool(getattr(ctx, 'lazy_decide',
                                                   False))))
            else:
                # reachability witness: path condition must be satisfiable
                if ctx.obligations and h.reach == 'concrete':
                    # heavy non-linear path conditions: z3 may not honour its
                    # timeout; vacuity is guarded by the concrete runs
                    out['reach_unknown'] += 1
                elif ctx.obligations and out['reach'] < 3 and \
                        out['reach_unknown'] < 2:
                    ctx.solver.set('timeout', 5000)
                    rr = ctx.check(backend='reach')
                    ctx.solver.set('timeout', ctx.timeout_ms)
                    if rr == 'sat':
                        out['reach'] += 1
                    elif rr == 'unknown':
                        out['reach_unknown'] += 1
            for ob in rec['obligations']:
                out['obligations'] += 1
                out['by'][ob['by']] = out['by'].get(ob['by'], 0) + 1
                if ob['status'] == 'unsat':
                    out['discharged'] += 1
                elif ob['status'] == 'sat':
                    # keep a few distinct paths per obligation: a candidate
                    # from one path may not reproduce while another does
                    n_seen = sat_count.get(ob['name'], 0)
                    if n_seen < 4:
                        sat_count[ob['name']] = n_seen + 1
                        seen_sat.add(ob['name'])
                        out['sat'].append(dict(
                            name=ob['name'], key=ob.get('key'),
                            model=_model_jsonable(ob.get('model') or {}),
                            trace=ob['decisions'],
                            candidate=bool(ob.get('candidate', False) or
                                           getattr(ctx, 'lazy_decide',
                                                   False))))
                else:
                    out['unknown'].append(dict(name=ob['name'],
                                               status=ob['status'],
                                               detail=ob.get('detail')))
            if len(out['samples']) < 2 and rec['obligations']:
                ob = rec['obligations'][-1]
                out['samples'].append(dict(
                    harness=h.name, cfg=cfg, decisions=rec['trace'][:40],
                    n_decisions=len(rec['trace']), obligation=ob['name'],
                    status=ob['status'], by=ob['by'],
                    smt2=ob.get('smt2')))
            for n in rec['notes']:
                if n not in out['notes'] and len(out['notes']) < 20:
                    out['notes'].append(n)

        names = dict(npfacade.BUILTINS) if h.builtins else {}
        if isinstance(h.builtins, dict):
            names = h.builtins
        tmo = h.timeout_ms[tier] if isinstance(h.timeout_ms,
                                               dict) else h.timeout_ms
        wall = h.unit_wall_s[tier] if isinstance(h.unit_wall_s,
                                                 dict) else h.unit_wall_s
        npfacade.EXACT_CONST_SQRT = bool(h.exact_const_sqrt)
        # hard watchdog: the per-path deadline is only looked at around
        # solver calls; pure-Python polynomial work (a changed tree can
        # produce huge expressions) would otherwise run until the outer
        # timeout and take the concrete oracle runs of the unit with it
        import signal

        class _HardCap(BaseException):
            pass

        def _on_alarm(signum, frame):
            raise _HardCap()
        old_handler = None
        try:
            old_handler = signal.signal(signal.SIGALRM, _on_alarm)
            signal.alarm(int(wall * 1.25) + 30)
        except (ValueError, AttributeError):     # not in a main thread
            old_handler = None
        try:
            if concrete_only:
                raise _HardCap()
            with npfacade.inject(*mods, names=names):
                try:
                    core.explore(lambda ctx: h.sym(ctx, cfg), timeout_ms=tmo,
                                 max_paths=h.max_paths, div_mode=h.div_mode,
                                 stats=st, wall_s=wall, on_path=on_path,
                                 logic=h.logic)
                except core.BoundExceeded as e:
                    out['unknown'].append(dict(name='bound-exceeded',
                                               detail=str(e)))
        except _HardCap:
            out['unknown'].append(dict(
                name='bound-exceeded',
                detail='hard wall-clock cap of the work unit reached (the '
                'worker was killed inside a solver call and the unit re-run '
                'for its concrete oracle only)' if concrete_only else
                'hard wall-clock cap of the work unit (%d s) reached '
                'outside a solver call' % (int(wall * 1.25) + 30)))
        finally:
            if old_handler is not None:
                signal.alarm(0)
                signal.signal(signal.SIGALRM, old_handler)
        out['paths'] = st.paths
        out['decisions'] = st.decisions
        out['stats'] = st.as_dict()
        rng = random.Random(seed * 1000003 + hidx * 1009 + cidx)
        try:
            with npfacade.inject(*mods, names=names):
                out['concrete'] = int(h.concrete(cfg, rng) or 0)
        except Exception as e:
            # (by name: this module may be loaded both as __main__ and as
            # pysym.runner)
            if type(e).__name__ == 'ConcreteViolation':
                out['concrete_violation'] = dict(
                    key=e.key, detail=_jsonable(e.detail))
            else:
                out['concrete_error'] = ''.join(traceback.format_exception(
                    type(e), e, e.__traceback__))[-1500:]
    except BaseException as e:  # harness error -> inconclusive
        out['error'] = ''.join(
            traceback.format_exception(type(e), e, e.__traceback__))[-3000:]
    out['wall_s'] = time.time() - t0
    return out


_PROXY_WORDS = ('SReal', 'SComplex', 'SInt', 'SBool', 'SBV', 'SFP',
                "dtype('O')", 'dtype(O)', 'object arrays', "dtype('object')",
                'Cannot cast array data from dtype', 'not supported for the '
                'input types', 'object of type', "`.real` isn't a view",
                "`.imag` isn't a view")


STRICT = bool(os.environ.get('VERIF_STRICT'))


def _engine_limitation(exc):
    """True for exceptions that stem from running numpy C routines on
    object arrays of proxies (an engine limitation, not behaviour of the
    code under check)"""
    if not isinstance(exc, (TypeError, ValueError, AttributeError)):
        return False
    msg = str(exc)
    return any(w in msg for w in _PROXY_WORDS)


def _sha(fn):
    try:
        return hashlib.sha256(inspect.getsource(fn).encode()).hexdigest()[:16]
    except Exception:
        return None


def _function_records(h):
    from pysym import repo_module
    recs = []
    for spec in h.functions:
        modname, qual = spec.split(':')
        try:
            obj = repo_module(modname)
            for part in qual.split('.'):
                obj = getattr(obj, part)
            obj = getattr(obj, 'py_func', obj)
            obj = getattr(obj, '__func__', obj)
            if isinstance(obj, property):
                obj = obj.fget
            recs.append(dict(function=spec, source_sha256_16=_sha(obj)))
        except Exception as e:
            recs.append(dict(function=spec, error=repr(e)))
    return recs


def load_known(prop):
    out = []
    paths = [os.path.join(VERIF, 'known_findings.json')]
    d = os.path.join(VERIF, 'known_findings.d')
    if os.path.isdir(d):
        paths += [os.path.join(d, f) for f in sorted(os.listdir(d))
                  if f.endswith('.json')]
    for p in paths:
        if not os.path.exists(p):
            continue
        with open(p) as f:
            data = json.load(f)
        out += [e for e in data.get('findings', []) if e['property'] == prop]
    return out


def _blank(u, error):
    return dict(hidx=u[1], cidx=u[2], cfg=u[3], sat=[], error=error, paths=0,
                decisions=0, obligations=0, discharged=0, by={}, unknown=[],
                reach=0, reach_unknown=0, degraded=[], samples=[],
                exceptions={}, concrete=0, stats=None, notes=[], wall_s=0)


def _child(conn, units):
    try:
        for unit in units:
            try:
                conn.send(_unit(unit))
            except BaseException as e:      # noqa
                conn.send(_blank(unit, 'worker failed: %r' % (e, )))
    finally:
        conn.close()


def _wall(h, tier):
    return h.unit_wall_s[tier] if isinstance(h.unit_wall_s, dict) else \
        h.unit_wall_s


def _run_units(units, jobs, harnesses):
    """forked worker processes with a HARD deadline enforced by the parent
    (z3 does not always honour its timeout, and cannot always be
    interrupted): a unit that overruns is killed and run again for its
    concrete oracle only; its symbolic part is reported as not decided.
    Harnesses with many tiny units may declare `units_per_process` to share
    one fork among consecutive units (the deadline is then the sum)."""
    ctx = mp.get_context('fork')
    groups = []
    for u in units:
        h = harnesses[u[1]]
        k = int(getattr(h, 'units_per_process', 1) or 1)
        if groups and k > 1 and groups[-1][0][1] == u[1] and \
                len(groups[-1]) < k:
            groups[-1].append(u)
        else:
            groups.append([u])
    pending = groups[::-1]
    running = []
    results = []
    while pending or running:
        while pending and len(running) < jobs:
            g = pending.pop()
            limit = 0.0
            for u in g:
                w = _wall(harnesses[u[1]], u[4])
                limit += (w + 120) if len(u) > 6 else (w * 1.5 + 90)
            pc, cc = ctx.Pipe(duplex=False)
            p = ctx.Process(target=_child, args=(cc, g), daemon=True)
            p.start()
            cc.close()
            running.append([p, pc, g, time.time() + limit, 0])
        progressed = False
        for item in list(running):
            p, pc, g, dead, done = item
            try:
                while pc.poll():
                    results.append(pc.recv())
                    item[4] += 1
                    progressed = True
            except (EOFError, OSError):
                pass
            done = item[4]
            if done >= len(g):
                p.join(1)
                running.remove(item)
                progressed = True
            elif not p.is_alive():
                # died without delivering everything
                results.append(_blank(g[done], 'worker died without a result '
                                      '(exit code %r)' % (p.exitcode, )))
                for u in g[done + 1:]:
                    pending.append([u])
                running.remove(item)
                progressed = True
            elif time.time() > dead:
                p.kill()
                p.join(2)
                running.remove(item)
                progressed = True
                u = g[done]
                if len(u) > 6:
                    results.append(_blank(u, 'work unit killed at its hard '
                                          'deadline (also in concrete-only '
                                          'mode)'))
                else:
                    pending.append([tuple(u) + ('concrete-only', )])
                for u2 in g[done + 1:]:
                    pending.append([u2])
        if not progressed:
            time.sleep(0.02)
    return results


def run_check(prop, tier='quick', only=None, jobs=None):
    t0 = time.time()
    seed = int(os.environ.get('VERIF_SEED', '0') or 0)
    mod = _load(prop)
    harnesses = mod.HARNESSES
    units = []
    for hi, h in enumerate(harnesses):
        if only and h.name not in only:
            continue
        for ci, cfg in enumerate(h.configs(tier)):
            units.append((prop, hi, ci, cfg, tier, seed))
    jobs = jobs or int(os.environ.get('VERIF_JOBS', '0') or 0) or min(
        14, max(1, len(units)))
    results = []
    if jobs == 1 or len(units) == 1:
        for u in units:
            results.append(_unit(u))
    else:
        results = _run_units(units, jobs, harnesses)
    results.sort(key=lambda r: (r['hidx'], r['cidx']))

    known = load_known(prop)
    known_keys = {e['key']: e for e in known if e.get('status') == 'known'}
    violations, known_hits, inconclusive, degraded = [], {}, [], []
    unproved = []
    replay_dir = os.path.join(VERIF, 'replays', prop)
    cex_records = []
    for r in results:
        h = harnesses[r['hidx']]
        if r['error']:
            inconclusive.append('%s cfg=%s: harness error: %s' %
                                (h.name, r['cfg'], r['error'][-600:]))
            continue
        cv = r.get('concrete_violation')
        if cv:
            key = cv['key']
            rec = dict(harness=h.name, cfg=r['cfg'],
                       obligation='concrete-probe', model={},
                       replay=dict(reproduced=True, key=key,
                                   detail=cv['detail']))
            cex_records.append(rec)
            if key in known_keys:
                known_hits.setdefault(key, rec)
            elif not any(k == key for k, _ in violations):
                os.makedirs(replay_dir, exist_ok=True)
                fn = os.path.join(replay_dir, '%s.json' % hashlib.sha1(
                    key.encode()).hexdigest()[:12])
                with open(fn, 'w') as f:
                    json.dump(dict(property=prop, key=key, harness=h.name,
                                   cfg=r['cfg'], obligation='concrete-probe',
                                   model={}, replay=rec['replay']), f,
                              indent=1)
                violations.append((key, fn))
        if r.get('concrete_error'):
            inconclusive.append('%s cfg=%s: concrete differential run '
                                'failed: %s' % (h.name, r['cfg'],
                                                r['concrete_error'][-400:]))
        for u in r['unknown']:
            inconclusive.append('%s cfg=%s: %s %s' %
                                (h.name, r['cfg'], u.get('name'),
                                 u.get('status') or u.get('detail')))
        if r.get('degraded'):
            if r['concrete'] > 0 and not r.get('concrete_error') and not \
                    r.get('concrete_violation'):
                degraded.append('%s cfg=%s: symbolic run not possible (%s); '
                                'accepted on %d passing concrete oracle runs' %
                                (h.name, r['cfg'], r['degraded'][0],
                                 r['concrete']))
            else:
                inconclusive.append('%s cfg=%s: symbolic run not possible '
                                    '(%s) and no concrete oracle run' %
                                    (h.name, r['cfg'], r['degraded'][0]))
        if r['paths'] == 0:
            inconclusive.append('%s cfg=%s: no path explored' %
                                (h.name, r['cfg']))
        elif r['obligations'] and r['reach'] == 0 and r['reach_unknown'] \
                and r['concrete'] > 0:
            # solver could not exhibit a model of the (non-linear) path
            # condition within 5 s; the concrete differential run executed the
            # same code on real numbers satisfying the assumptions
            pass
        elif r['obligations'] and r['reach'] == 0 and not r.get('degraded'):
            inconclusive.append(
                '%s cfg=%s: vacuous (no satisfiable completed path)' %
                (h.name, r['cfg']))
        reproduced_names = set()
        pending_inconclusive = {}
        pending_unproved = {}
        for s in r['sat']:
            if s['name'] in reproduced_names:
                continue
            try:
                rp = h.replay(r['cfg'], s['name'], model_fractions(s['model']))
            except Exception as e:
                rp = dict(reproduced=False, key=None,
                          detail='replay raised ' + repr(e))
            rec = dict(harness=h.name, cfg=r['cfg'], obligation=s['name'],
                       model=s['model'], decisions=s['trace'][:60],
                       replay=_jsonable(rp))
            cex_records.append(rec)
            if rp.get('reproduced'):
                reproduced_names.add(s['name'])
                pending_inconclusive.pop(s['name'], None)
                key = rp.get('key') or ('%s/%s/%s' % (prop, h.name, s['name']))
                if key in known_keys:
                    known_hits.setdefault(key, rec)
                elif any(k == key for k, _ in violations):
                    pass
                else:
                    os.makedirs(replay_dir, exist_ok=True)
                    fn = os.path.join(
                        replay_dir, '%s.json' % hashlib.sha1(
                            key.encode()).hexdigest()[:12])
                    with open(fn, 'w') as f:
                        json.dump(dict(property=prop, key=key, harness=h.name,
                                       cfg=r['cfg'], obligation=s['name'],
                                       model=s['model'],
                                       replay=_jsonable(rp)), f, indent=1)
                    violations.append((key, fn))
            elif s.get('candidate') and not STRICT and r['concrete'] > 0 \
                    and not r.get('concrete_error') and not \
                    r.get('concrete_violation'):
                # "sat" of an INCOMPLETE prover (monomial abstraction, path
                # whose feasibility was not established): no counterexample,
                # only a proof that was not found.  With passing concrete
                # oracle runs of the real code the unit is reported as
                # UNPROVED (exit 0; exit 2 with VERIF_STRICT=1).
                pending_unproved[s['name']] = (
                    '%s cfg=%s: %s not proved (incomplete prover; candidate '
                    'did not reproduce on the real code: %s)' %
                    (h.name, r['cfg'], s['name'],
                     str(rp.get('detail'))[:200]))
            else:
                pending_inconclusive[s['name']] = (
                    '%s cfg=%s: counterexample for %s did not reproduce on '
                    'the real code (%s)' % (h.name, r['cfg'], s['name'],
                                            str(rp.get('detail'))[:300]))
        inconclusive.extend(pending_inconclusive.values())
        unproved.extend(v for k, v in pending_unproved.items()
                        if k not in reproduced_names)

    # ---- evidence --------------------------------------------------------------
    from pysym import core
    tot = core.Stats()
    by = {}
    for r in results:
        if r.get('stats'):
            for k, v in r['stats']['queries'].items():
                tot.queries[k] = tot.queries.get(k, 0) + v
            for k, v in r['stats']['solver_s'].items():
                tot.solver_s[k] = tot.solver_s.get(k, 0.0) + v
        for k, v in r['by'].items():
            by[k] = by.get(k, 0) + v
    samples = []
    for r in results:
        for s in r['samples']:
            if len(samples) < 6:
                samples.append(_jsonable(s))
    if not samples:
        samples = [dict(note='no obligation was emitted')]
    hs = []
    for hi, h in enumerate(harnesses):
        rs = [r for r in results if r['hidx'] == hi]
        if not rs:
            continue
        hs.append(dict(
            harness=h.name, doc=(h.__doc__ or '').strip()[:600],
            functions=_function_records(h), bounds=h.bounds,
            stubs=list(h.stubs), assumptions=list(h.assumptions),
            outside=list(h.outside), configs=len(rs),
            paths=sum(r['paths'] for r in rs),
            decisions=sum(r['decisions'] for r in rs),
            obligations=sum(r['obligations'] for r in rs),
            discharged=sum(r['discharged'] for r in rs),
            exceptions=_merge_counts(r['exceptions'] for r in rs),
            concrete_runs=sum(r['concrete'] for r in rs),
            wall_s=round(sum(r.get('wall_s', 0) for r in rs), 2),
            notes=sorted({n for r in rs for n in r.get('notes', [])})[:10]))
    n_paths = sum(r['paths'] for r in results)
    n_dec = sum(r['decisions'] for r in results)
    level = getattr(mod, 'LEVEL', 'model_checking')
    coverage = dict(
        states=max(n_paths, 0),
        transitions=max(n_dec + sum(r['obligations'] for r in results), 0),
        branch_decisions=n_dec,
        traces_validated_against_impl=sum(r['concrete'] for r in results),
        samples=samples,
        evaluations=max(sum(r['obligations'] for r in results), 0),
        distinct_nontrivial=sum(
            r['obligations'] - r['by'].get('trivial', 0) for r in results),
        rule='one evaluation = one SMT obligation (path condition and '
        'negated property) on one explored path of the real code; '
        'non-trivial = not closed by constant folding before reaching the '
        'solver; states = completed feasible paths; transitions = solver '
        'verdicts along those paths (branch decisions decided by a '
        'feasibility query + obligations decided); branch_decisions gives '
        'the first summand alone',
        obligations=sum(r['obligations'] for r in results),
        discharged=sum(r['discharged'] for r in results),
        discharged_by=by, solver_queries=tot.queries,
        solver_time_s={k: round(v, 2) for k, v in tot.solver_s.items()},
        harnesses=hs, counterexamples=cex_records[:20],
        known_findings_hit=sorted(known_hits),
        inconclusive=inconclusive[:40],
        degraded_units=degraded[:40],
        unproved=unproved[:40],
        exhaustive=False,
        explanation=getattr(mod, 'EXPLANATION', ''))
    ev = dict(property_id=prop, tier=tier, seed=seed, level=level,
              coverage=coverage,
              assumptions=sorted({a for h in harnesses
                                  for a in h.assumptions} |
                                 set(getattr(mod, 'ASSUMPTIONS', []))),
              wall_s=round(time.time() - t0, 2),
              violations=len(violations))
    os.makedirs(os.path.join(VERIF, 'evidence'), exist_ok=True)
    with open(os.path.join(VERIF, 'evidence', prop + '.json'), 'w') as f:
        json.dump(ev, f, indent=1)

    # ---- verdict ----------------------------------------------------------------
    for key in sorted(known_hits):
        print('KNOWN-FINDING: property=%s %s -- %s' %
              (prop, key, known_keys[key].get('what', '')))
    for key, fn in violations:
        print('VIOLATION property=%s replay=%s' % (prop, fn))
        print('  key=%s' % key)
    print('%s tier=%s units=%d paths=%d decisions=%d obligations=%d '
          'discharged=%d concrete=%d wall=%.1fs' %
          (prop, tier, len(units), n_paths, n_dec, coverage['obligations'],
           coverage['discharged'],
           coverage['traces_validated_against_impl'], time.time() - t0))
    for m in degraded[:10]:
        print('DEGRADED: ' + m[:300])
    for m in unproved[:10]:
        print('UNPROVED: ' + m[:300])
    if violations:
        return EXIT_VIOLATION
    if inconclusive:
        for m in inconclusive[:15]:
            print('INCONCLUSIVE: ' + m)
        return EXIT_INCONCLUSIVE
    return EXIT_OK


def _merge_counts(ds):
    out = {}
    for d in ds:
        for k, v in d.items():
            out[k] = out.get(k, 0) + v
    return out


def run_replay(prop, path):
    with open(path) as f:
        rec = json.load(f)
    mod = _load(prop)
    for h in mod.HARNESSES:
        if h.name == rec['harness']:
            from pysym import npfacade, repo_module
            rp = h.replay(rec['cfg'], rec['obligation'],
                          model_fractions(rec['model']))
            print(json.dumps(_jsonable(rp), indent=1))
            if rp.get('reproduced'):
                print('VIOLATION property=%s replay=%s' % (prop, path))
                return EXIT_VIOLATION
            print('not reproduced')
            return EXIT_OK
    print('unknown harness in replay file')
    return EXIT_INCONCLUSIVE


def main(argv=None):
    import argparse
    ap = argparse.ArgumentParser()
    ap.add_argument('prop')
    ap.add_argument('--tier', default=os.environ.get('VERIF_TIER', 'quick'))
    ap.add_argument('--replay')
    ap.add_argument('--only', action='append')
    ap.add_argument('--jobs', type=int)
    a = ap.parse_args(argv)
    if a.tier not in ('quick', 'thorough'):
        a.tier = 'quick'
    if a.replay:
        return run_replay(a.prop, a.replay)
    return run_check(a.prop, a.tier, a.only, a.jobs)


if __name__ == '__main__':
    sys.exit(main())
