"""Concrete data-representation probes of the real code.

The symbolic layer models numbers as exact reals / integers: which numpy
dtype, container or memory layout carries a value is invisible to it.  Code
can nevertheless depend on exactly that (an integer array truncating a float
result, `np.asarray(x, dtype=float)` aliasing a float64 argument that is then
modified in place, `ravel(order='K')` on a Fortran-ordered array).  These
helpers run the REAL function on representation variants of one concrete
input and compare with the canonical call (float64 / complex128, C order,
fresh arrays).  They are differential concrete runs, not solver verdicts, and
are reported as such (ConcreteViolation with ':data-representation').
"""
import copy

import numpy as np


def _is_num_array(x):
    return isinstance(x, np.ndarray) and x.dtype.kind in 'iufc'


def variants(x, kinds=('readonly', 'fortran', 'strided', 'int', 'list',
                       'narrow', 'pyscalar')):
    """(tag, variant) pairs that denote the SAME mathematical value as x"""
    out = []
    if isinstance(x, np.ndarray) and x.dtype.kind in 'iufc':
        if 'readonly' in kinds:
            v = x.copy()
            v.setflags(write=False)
            out.append(('read-only array', v))
        if 'fortran' in kinds and x.ndim >= 2 and min(x.shape) > 1:
            out.append(('Fortran-ordered array', np.asfortranarray(x)))
            out.append(('transposed view', np.ascontiguousarray(x.T).T))
        if 'strided' in kinds and x.ndim >= 1 and x.size:
            big = np.zeros(x.shape[:-1] + (2 * x.shape[-1], ), dtype=x.dtype)
            big[..., ::2] = x
            out.append(('strided view', big[..., ::2]))
        if 'int' in kinds and x.dtype.kind == 'f' and x.size and np.all(
                np.isfinite(x)) and np.all(x == np.round(x)) and np.all(
                    np.abs(x) < 2**31):
            out.append(('integer-dtype array', x.astype(np.int64)))
            out.append(('int32 array', x.astype(np.int32)))
        if 'list' in kinds and x.ndim >= 1:
            out.append(('list', x.tolist()))
        if 'narrow' in kinds and x.dtype == np.float64 and x.size and np.all(
                x.astype(np.float32).astype(np.float64) == x):
            out.append(('float32 array', x.astype(np.float32)))
        if 'narrow' in kinds and x.dtype == np.complex128 and x.size and \
                np.all(x.astype(np.complex64).astype(np.complex128) == x):
            out.append(('complex64 array', x.astype(np.complex64)))
    elif isinstance(x, float) and 'pyscalar' in kinds:
        out.append(('numpy float64 scalar', np.float64(x)))
        if x == int(x) and abs(x) < 2**31:
            out.append(('Python int', int(x)))
            out.append(('numpy int64 scalar', np.int64(int(x))))
        if np.float64(np.float32(x)) == x:
            out.append(('numpy float32 scalar', np.float32(x)))
    elif isinstance(x, int) and not isinstance(x, bool) and \
            'pyscalar' in kinds:
        out.append(('Python float', float(x)))
        out.append(('numpy int64 scalar', np.int64(x)))
    return out


def _same(a, b, rtol, atol):
    if isinstance(a, (tuple, list)) and isinstance(b, (tuple, list)):
        return len(a) == len(b) and all(
            _same(x, y, rtol, atol) for x, y in zip(a, b))
    if a is None or b is None:
        return a is b
    try:
        a_ = np.asarray(a)
        b_ = np.asarray(b)
        if a_.dtype == object or b_.dtype == object:
            if a_.shape != b_.shape:
                return False
            return all(_same(x, y, rtol, atol)
                       for x, y in zip(a_.ravel(), b_.ravel()))
        if a_.shape != b_.shape:
            return False
        return bool(np.allclose(a_.astype(complex), b_.astype(complex),
                                rtol=rtol, atol=atol, equal_nan=True))
    except Exception:
        return a == b


def _snapshot(args):
    return copy.deepcopy(args)


def _unchanged(before, after):
    if isinstance(before, np.ndarray):
        return isinstance(after, np.ndarray) and before.shape == after.shape \
            and before.dtype == after.dtype and bool(
                np.array_equal(before, after, equal_nan=before.dtype.kind
                               in 'fc'))
    if isinstance(before, (list, tuple)):
        return type(before) is type(after) and len(before) == len(after) \
            and all(_unchanged(x, y) for x, y in zip(before, after))
    if isinstance(before, dict):
        return before.keys() == after.keys() and all(
            _unchanged(before[k], after[k]) for k in before)
    return True


def probe(call, args, vary=None, kinds=None, rtol=1e-9, atol=1e-12,
          check_result_alias=True):
    """Run `call(*args)` canonically and on every representation variant of
    the arguments whose index is in `vary` (default: all).

    Returns a list of problems (strings); empty when the real code gives the
    same value for every variant, raises for none that the canonical call
    accepts, does not modify its arguments and does not hand out an array
    that shares memory with an argument."""
    problems = []
    base_args = _snapshot(list(args))
    keep = _snapshot(base_args)
    base = call(*base_args)
    if not _unchanged(keep, base_args):
        problems.append('argument-modified')
    if check_result_alias:
        outs = base if isinstance(base, (tuple, list)) else [base]
        for o in outs:
            if isinstance(o, np.ndarray):
                for a in base_args:
                    if isinstance(a, np.ndarray) and a.size and o.size and \
                            np.shares_memory(o, a):
                        problems.append('result-aliases-argument')
    # a second canonical call on the same (re-used) arguments
    again = call(*base_args)
    if not _same(base, again, rtol, atol):
        problems.append('second-call-with-same-arguments-differs')
    idxs = range(len(args)) if vary is None else vary
    for i in idxs:
        kw = {} if kinds is None else dict(kinds=kinds)
        for tag, v in variants(args[i], **kw):
            a2 = _snapshot(list(args))
            a2[i] = v
            snap = _snapshot(a2)
            try:
                out = call(*a2)
            except Exception as e:  # noqa
                if tag == 'read-only array' and isinstance(e, ValueError) \
                        and 'read-only' in str(e):
                    problems.append('writes-into-argument(%s of arg %d)' %
                                    (tag, i))
                else:
                    problems.append('raises-%s(%s for arg %d)' %
                                    (type(e).__name__, tag, i))
                continue
            if not _same(base, out, max(rtol, 1e-5) if 'float32' in tag or
                         'complex64' in tag else rtol,
                         max(atol, 1e-6) if 'float32' in tag or
                         'complex64' in tag else atol):
                problems.append('differs(%s for arg %d)' % (tag, i))
            if tag != 'read-only array' and not _unchanged(snap, a2):
                problems.append('argument-modified(%s for arg %d)' % (tag, i))
    return sorted(set(problems))


def require(key_prefix, call, args, **kw):
    """probe() that raises ConcreteViolation (picked up by the runner)"""
    from pysym.runner import ConcreteViolation
    allow = kw.pop('allow', ())
    pr = [p for p in probe(call, args, **kw)
          if not any(p.startswith(a) for a in allow)]
    if pr:
        raise ConcreteViolation(
            '%s:data-representation:%s' % (key_prefix, pr[0].split('(')[0]),
            dict(problems=pr[:8]))
    return 1
