"""Helpers shared by check modules."""
import random

import numpy as np

from .runner import model_floats


def carray_from_model(model, name, shape, default_rng=None):
    """complex ndarray from model entries '<name>_i_j_re/_im' (missing ->
    random if default_rng else 0)"""
    m = model_floats(model)
    shape = (shape, ) if isinstance(shape, int) else tuple(shape)
    out = np.zeros(shape, dtype=complex)
    for idx in np.ndindex(*shape):
        n = name + ''.join('_%d' % i for i in idx)
        re = m.get(n + '_re')
        im = m.get(n + '_im')
        if re is None and default_rng is not None:
            re = default_rng.gauss(0, 1)
        if im is None and default_rng is not None:
            im = default_rng.gauss(0, 1)
        out[idx] = complex(re or 0.0, im or 0.0)
    return out


def rarray_from_model(model, name, shape, default_rng=None):
    m = model_floats(model)
    shape = (shape, ) if isinstance(shape, int) else tuple(shape)
    out = np.zeros(shape, dtype=float)
    for idx in np.ndindex(*shape):
        n = name + ''.join('_%d' % i for i in idx)
        v = m.get(n)
        if v is None and default_rng is not None:
            v = default_rng.gauss(0, 1)
        out[idx] = v or 0.0
    return out


def crandn(rng, *shape):
    out = np.zeros(shape, dtype=complex)
    for idx in np.ndindex(*shape):
        out[idx] = complex(rng.gauss(0, 1), rng.gauss(0, 1))
    return out


def search_witness(check, first, rng_seed=0, tries=64, gen=None):
    """Witness search for candidate counterexamples (DESIGN 3.2 step 2b).

    `check(inputs)` -> list of failed clause names (empty = holds).
    `first`: inputs from the solver model (tried first); `gen(rng)` draws
    further inputs.  Returns (failed, inputs) or ([], None)."""
    cands = [first] if first is not None else []
    rng = random.Random(rng_seed)
    if gen is not None:
        cands += [gen(rng) for _ in range(tries)]
    for inp in cands:
        try:
            bad = check(inp)
        except np.linalg.LinAlgError:
            continue
        if bad:
            return bad, inp
    return [], None
