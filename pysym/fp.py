"""IEEE-754 binary64 proxies (round-to-nearest-even) and the cvc5 back end.

Used only for the kernels where rounding *is* the property (DESIGN 2.6).
Terms are built with the z3 API, exported as SMT-LIB2 and decided by the cvc5
binary (z3's own FP solver does not finish on these queries).
"""
import os
import re
import struct
import subprocess
import tempfile
import time

import numpy as np
import z3

RNE = z3.RNE()
F64 = z3.Float64()


def fpval(x):
    return z3.FPVal(float(x), F64)


class SFP:
    """A Python float / numpy float64 value as a QF_FP term."""
    __slots__ = ('z', )

    def __init__(self, z):
        if isinstance(z, (int, float, np.integer, np.floating)):
            z = fpval(z)
        self.z = z

    @staticmethod
    def _c(o):
        if isinstance(o, SFP):
            return o.z
        if isinstance(o, (int, float, np.integer, np.floating)):
            # ints are converted to the nearest double, like Python does
            return fpval(float(o))
        return None

    def _bin(self, o, f, rev=False):
        z = self._c(o)
        if z is None:
            return NotImplemented
        return SFP(f(RNE, z, self.z) if rev else f(RNE, self.z, z))

    def __add__(self, o):
        return self._bin(o, z3.fpAdd)

    def __radd__(self, o):
        return self._bin(o, z3.fpAdd, True)

    def __sub__(self, o):
        return self._bin(o, z3.fpSub)

    def __rsub__(self, o):
        return self._bin(o, z3.fpSub, True)

    def __mul__(self, o):
        return self._bin(o, z3.fpMul)

    def __rmul__(self, o):
        return self._bin(o, z3.fpMul, True)

    def __truediv__(self, o):
        return self._bin(o, z3.fpDiv)

    def __rtruediv__(self, o):
        return self._bin(o, z3.fpDiv, True)

    def __neg__(self):
        return SFP(z3.fpNeg(self.z))

    def __float__(self):
        raise TypeError('float() of a symbolic double')

    def __repr__(self):
        return 'SFP(%s)' % self.z


def ceil(x):
    return SFP(z3.fpRoundToIntegral(z3.RTP(), x.z))


def _parse_fp(txt):
    m = re.match(r'\(fp #b([01]) #b([01]+) #x([0-9a-fA-F]+)\)', txt.strip())
    if m:
        s, e, f = m.groups()
        bits = (int(s) << 63) | (int(e, 2) << 52) | int(f, 16)
        return struct.unpack('>d', struct.pack('>Q', bits))[0]
    m = re.match(r'\(fp #b([01]) #b([01]+) #b([01]+)\)', txt.strip())
    if m:
        s, e, f = m.groups()
        bits = (int(s) << 63) | (int(e, 2) << 52) | int(f, 2)
        return struct.unpack('>d', struct.pack('>Q', bits))[0]
    if '+zero' in txt:
        return 0.0
    if '-zero' in txt:
        return -0.0
    return None


def cvc5_check(assertions, timeout_s=120, want_model=True):
    """Decide the conjunction of z3 terms with the cvc5 binary.

    Returns (status, model dict name->float, seconds, smt2 text)."""
    s = z3.Solver()
    for a in assertions:
        s.add(a)
    body = s.to_smt2()
    body = body.replace('(check-sat)', '')
    text = ('(set-logic QF_FP)\n(set-option :produce-models true)\n' + body +
            '\n(check-sat)\n' + ('(get-model)\n' if want_model else ''))
    d = os.environ.get('TMPDIR', '/tmp')
    fd, path = tempfile.mkstemp(suffix='.smt2', dir=d)
    with os.fdopen(fd, 'w') as f:
        f.write(text)
    t0 = time.time()
    try:
        p = subprocess.run(['cvc5', '--lang', 'smt2',
                            '--tlimit=%d' % int(timeout_s * 1000), path],
                           capture_output=True, text=True,
                           timeout=timeout_s + 30)
        out = p.stdout + p.stderr
    except subprocess.TimeoutExpired:
        out = 'timeout'
    finally:
        os.unlink(path)
    dt = time.time() - t0
    lines = out.strip().splitlines()
    status = 'unknown'
    if lines and lines[0].strip() in ('sat', 'unsat'):
        status = lines[0].strip()
        rest = '\n'.join(lines[1:])
        if '(error' in rest and not (status == 'unsat' and
                                     'Cannot get model' in rest):
            status = 'error'
    elif '(error' in out:
        status = 'error'
    model = {}
    if status == 'sat':
        for m in re.finditer(
                r'\(define-fun (\S+) \(\) \(_ FloatingPoint 11 53\) '
                r'(\(fp [^)]*\)|\(_ [^)]*\))', out):
            v = _parse_fp(m.group(2))
            if v is not None:
                model[m.group(1)] = v
    return status, model, dt, text
