"""Exact DFT on symbolic data for sizes whose twiddle factors lie in
Q(i, sqrt2, sqrt3): N in {1, 2, 3, 4, 6, 8, 12} (DESIGN 2.2)."""
from fractions import Fraction

import numpy as np

from .core import OutsideBound, Poly, SComplex, SReal, cur
from .contracts import _c

SIZES = (1, 2, 3, 4, 6, 8, 12)


def _cos_sin_24(k):
    """(cos, sin) of k*15 degrees for k multiple of 2 or 3 (k mod 24)"""
    ctx = cur()
    k %= 24
    half = Fraction(1, 2)

    def r2():
        return SReal(ctx.sqrt(Poly.const(2)))

    def r3():
        return SReal(ctx.sqrt(Poly.const(3)))
    table = {
        0: lambda: (SReal(1), SReal(0)),
        2: lambda: (r3() * half, SReal(half)),          # 30
        3: lambda: (r2() * half, r2() * half),          # 45
        4: lambda: (SReal(half), r3() * half),          # 60
        6: lambda: (SReal(0), SReal(1)),                # 90
    }
    q, r = divmod(k, 6)
    if r not in table and (6 - r) not in table:
        raise OutsideBound('twiddle angle %d*15 degrees' % k)
    # reduce to first quadrant
    if r in table and r != 6:
        c, s = table[r]()
    else:
        raise OutsideBound('twiddle')
    # rotate by q*90 degrees
    for _ in range(q):
        c, s = -s, c
    return c, s


def twiddle(N, e, inverse=False):
    """exp(-+ 2 pi i e / N)"""
    if 24 % N:
        raise OutsideBound('DFT size %d outside %r' % (N, SIZES))
    k = (e * (24 // N)) % 24
    c, s = _cos_sin_24(k)
    return SComplex(c, s if inverse else -s)


def dft_matrix(N, inverse=False):
    W = np.empty((N, N), dtype=object)
    for j in range(N):
        for k in range(N):
            W[j, k] = twiddle(N, j * k, inverse)
    return W


def fft(a, n=None, axis=-1, inverse=False, norm=None):
    a = np.asarray(a, dtype=object)
    if a.ndim == 0:
        raise ValueError('0-d input')
    a = np.moveaxis(a, axis, -1)
    L = a.shape[-1]
    N = L if n is None else int(n)
    if N not in SIZES:
        raise OutsideBound('DFT size %d outside %r' % (N, SIZES))
    zero = SComplex(0, 0)
    out = np.empty(a.shape[:-1] + (N, ), dtype=object)
    W = dft_matrix(N, inverse)
    for idx in np.ndindex(*a.shape[:-1]):
        x = [_c(a[idx + (i, )]) if i < L else zero for i in range(N)]
        for j in range(N):
            acc = zero
            for k in range(N):
                if x[k].re.p.t or x[k].im.p.t:
                    acc = acc + W[j, k] * x[k]
            if inverse and norm is None:
                acc = acc * Fraction(1, N)
            elif norm == 'ortho':
                acc = acc / SReal(N).sqrt()
            elif norm == 'forward' and not inverse:
                acc = acc * Fraction(1, N)
            out[idx + (j, )] = acc
    return np.moveaxis(out, -1, axis)
