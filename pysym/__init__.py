"""pysym -- run the real pyphysim code on symbolic scalars, decide with SMT.

See /verif/DESIGN.md section 2.
"""
import sys

import os

# /repo unless overridden (development only: checking a scratch worktree)
REPO = os.environ.get('VERIF_REPO', '/repo').rstrip('/')
if REPO not in sys.path:
    sys.path.insert(0, REPO)


def repo_module(name):
    """Import `name` from /repo (never from the stale copy in site-packages)."""
    import importlib
    mod = importlib.import_module(name)
    f = getattr(mod, '__file__', '') or ''
    if not f.startswith(REPO + '/'):
        raise RuntimeError('module %s imported from %s, not from /repo' %
                           (name, f))
    return mod
