#!/bin/bash
# tools/import_one.sh <PROP> <LETTER> <srcdir> : import <srcdir>/mutA.diff + demoA.py as
# seeded/<PROP>-<LETTER>, confirm the demo on the clean tree, then evaluate (pinned tests,
# demo, quick check) on a patched scratch worktree.  Safe to run for several properties
# in parallel (each uses its own worktree; evidence files are per property).
cd /verif
P=$1; T=$2; src=$3
d=seeded/$P-$T; mkdir -p $d
cp $src/mutA.diff $d/patch.diff; cp $src/demoA.py $d/demo.py
(cd /repo && PYTHONPATH=/repo /venv/bin/python /verif/$d/demo.py > /dev/null 2>&1; echo "clean demo exit=$?") > $d/eval.log
tools/eval_mutant.sh $P $d/patch.diff $d/demo.py quick >> $d/eval.log 2>&1
echo "== $P-$T"; grep -E "demo exit|stable_pass|check exit|^VIOLATION|key=|INCONCL|PATCH-DOES" $d/eval.log | cut -c1-220
