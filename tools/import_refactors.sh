#!/bin/bash
# tools/import_refactors.sh C06 ... : copy refA/refB from /tmp/ref_<ID> into
# /verif/refactors/<ID>-<A|B> (patch.diff, argument.md) and run the quick check on a
# scratch worktree with the refactor applied (must exit 0)
cd /verif
TG=(${TARGETS:-A B})
for P in "$@"; do
  i=0
  for V in A B; do
    T=${TG[$i]}; i=$((i+1))
    src=${SRC_PREFIX:-/tmp/ref_}$P
    [ -f $src/ref$V.diff ] || continue
    d=refactors/$P-$T; mkdir -p $d
    cp $src/ref$V.diff $d/patch.diff; cp $src/arg$V.md $d/argument.md 2>/dev/null
    WT=$(mktemp -d /tmp/evalref_XXXX); rmdir $WT
    git -C /repo worktree add -q $WT HEAD || continue
    if ! git -C $WT apply $(realpath $d/patch.diff); then echo "$P-$T PATCH-DOES-NOT-APPLY"; git -C /repo worktree remove --force $WT; continue; fi
    s=$(date +%s)
    VERIF_REPO=$WT timeout 3000 ./check $P --tier quick > $d/check.log 2>&1; ec=$?
    echo "$P-$T check exit=$ec wall=$(( $(date +%s) - s ))s $(grep -E '^VIOLATION|^INCONCL|^DEGRADED|^  key=' $d/check.log | head -4 | cut -c1-220 | tr '\n' ' ')"
    git -C /repo worktree remove --force $WT
  done
done
git checkout -- evidence 2>/dev/null
