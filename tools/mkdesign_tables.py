#!/usr/bin/env python3
"""Regenerate the seeded-change and refactor tables at the end of DESIGN.md."""
import json, os, glob, re
V = os.path.dirname(os.path.dirname(os.path.abspath(__file__)))
res = {}
p = os.path.join(V, 'scratch', 'seeded_results.txt')
lines = []
lines.append('### 9.8 Seeded changes: which check catches which change\n')
lines.append('All rows: demonstration exits 0 on the clean tree and 1 on the changed tree; the 451 pinned '
             'tests pass on the changed tree; `./check <ID> --tier quick` on the changed tree exits 1 with a '
             'reproduced VIOLATION (last full sequential re-evaluation: `tools/eval_all_seeded.sh`).  '
             '"strengthened" = the check missed or was inconclusive at first and was extended (details in '
             'each meta.json).\n')
lines.append('| change | what it does | needs | caught by | strengthened |')
lines.append('|---|---|---|---|---|')
for d in sorted(glob.glob(os.path.join(V, 'seeded', '*'))):
    m = json.load(open(os.path.join(d, 'meta.json')))
    r = m['result']
    how = 'concrete probe' if 'concrete probe' in r.split('Now caught')[-1] or 'via the concrete probe' in r else 'solver'
    lines.append('| %s | %s | %s | %s | %s |' % (os.path.basename(d), m['change'].replace('|', '/'),
                 m['needs_to_manifest'].replace('|', '/'), how, 'yes' if m['check_strengthened'] else 'no'))
lines.append('')
lines.append('Of the %d changes, %d were caught by the checks as first written, %d needed a strengthened check; '
             '%d are caught by a concrete probe of the real code rather than by the solver (the branch is '
             'guarded by a float dtype / float formatting, needs request sizes or matrix sizes beyond the symbolic '
             'bound, goes through matplotlib, or lives in code declared outside the solver-decided claim).\n' % (
    len(glob.glob(os.path.join(V, 'seeded', '*'))),
    sum(1 for d in glob.glob(os.path.join(V, 'seeded', '*')) if not json.load(open(d + '/meta.json'))['check_strengthened']),
    sum(1 for d in glob.glob(os.path.join(V, 'seeded', '*')) if json.load(open(d + '/meta.json'))['check_strengthened']),
    sum(1 for d in glob.glob(os.path.join(V, 'seeded', '*')) if 'concrete probe' in json.load(open(d + '/meta.json'))['result'].split('Now caught')[-1] or 'via the concrete probe' in json.load(open(d + '/meta.json'))['result'])))
lines.append('### 9.9 Behaviour-preserving changes: no alarm\n')
lines.append('Independent sub-agents (same protocol, asked for realistic refactors that keep the property true) '
             'produced the changes under `refactors/<ID>-<A|B|C|D>/` (patch.diff, argument.md, check.log; `-C`/`-D` come from a second round that was asked for refactors of how data is converted, validated, copied and allocated, to exercise the data-representation probes).  '
             '`tools/eval_refactors.sh` applies each to a scratch worktree and runs the property\'s quick check: '
             'all must exit 0.\n')
rp = os.path.join(V, 'scratch', 'refactor_results.txt')
if os.path.exists(rp):
    lines.append('| refactor | check result |')
    lines.append('|---|---|')
    for l in open(rp):
        parts = l.split()
        if len(parts) >= 3:
            lines.append('| %s | %s %s |' % (parts[0], parts[2], parts[3] if len(parts) > 3 else ''))
lines.append('')
lines.append('Several of them first produced exit 2 (never a VIOLATION) and led to the machinery '
             'fixes listed in 9.5: `np.bincount`, an undecided cubic query, `int(-(-n // K))`, assignment '
             'to `.real` of an array, `x.real**2 + x.imag**2` on symbolic arrays, `np.fmax.reduce(..., '
             'initial=0)`, `divmod` on a symbolic integer, a module-level JSON encoder instance.  A '
             'correct variant of seeded change C01-B (cache invalidated) also passes.\n')
block = '\n'.join(lines)
dp = os.path.join(V, 'DESIGN.md')
s = open(dp).read()
marker = '<!-- GENERATED TABLES -->'
if marker in s:
    s = s[:s.index(marker)]
s = s.rstrip('\n') + '\n\n' + marker + '\n\n' + block + '\n'
open(dp, 'w').write(s)
print('ok')
