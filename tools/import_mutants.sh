#!/bin/bash
# tools/import_mutants.sh C03 ... : copy mutA/mutB from ${SRC_PREFIX:-/tmp/mut_}<ID> into
# /verif/seeded/<ID>-<A|B> (round 2: SRC_PREFIX=/tmp/mut2_ TARGETS="C D") and evaluate
cd /verif
SRC_PREFIX=${SRC_PREFIX:-/tmp/mut_}
TARGETS=(${TARGETS:-A B})
for P in "$@"; do
  i=0
  for V in A B; do
    T=${TARGETS[$i]}; i=$((i+1))
    src=$SRC_PREFIX$P
    [ -f $src/mut$V.diff ] || continue
    d=seeded/$P-$T; mkdir -p $d
    cp $src/mut$V.diff $d/patch.diff; cp $src/demo$V.py $d/demo.py
    (cd /repo && PYTHONPATH=/repo /venv/bin/python /verif/$d/demo.py > /dev/null 2>&1; echo "clean demo exit=$?") > $d/eval.log
    tools/eval_mutant.sh $P $d/patch.diff $d/demo.py quick >> $d/eval.log 2>&1
    echo "== $P-$T"; grep -E "demo exit|stable_pass|check exit|^VIOLATION|key=|INCONCL|PATCH-DOES" $d/eval.log | cut -c1-220
  done
done
