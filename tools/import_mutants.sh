#!/bin/bash
# tools/import_mutants.sh C03 ... : copy mutA/mutB from /tmp/mut_<ID> into /verif/seeded and evaluate
cd /verif
for P in "$@"; do
  for V in A B; do
    src=/tmp/mut_$P
    [ -f $src/mut$V.diff ] || continue
    d=seeded/$P-$V; mkdir -p $d
    cp $src/mut$V.diff $d/patch.diff; cp $src/demo$V.py $d/demo.py
    # demo on clean tree must exit 0
    (cd /repo && PYTHONPATH=/repo /venv/bin/python /verif/$d/demo.py > /tmp/demo_clean.log 2>&1; echo "clean demo exit=$?") > $d/eval.log
    tools/eval_mutant.sh $P $d/patch.diff $d/demo.py quick >> $d/eval.log 2>&1
    echo "== $P-$V"; grep -E "demo exit|stable_pass|check exit|VIOLATION|key=|INCONCL|PATCH-DOES" $d/eval.log | cut -c1-220
  done
done
