#!/bin/bash
# run all thorough tiers sequentially, logging results
cd /verif
for p in "$@"; do
  s=$(date +%s)
  VERIF_STRICT=1 timeout 3600 ./check $p --tier thorough --jobs 12 > scratch/thorough_$p.log 2>&1
  echo "$p exit=$? wall=$(( $(date +%s) - s ))s $(tail -n 1 scratch/thorough_$p.log | cut -c1-160)" >> scratch/thorough_summary.txt
done
