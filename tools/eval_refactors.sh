#!/bin/bash
# Behaviour-preserving refactors (from /verif/refactors/<ID>-<A|B>/patch.diff): every
# check of that property must still exit 0 (no alarm on correct code).
cd /verif
out=scratch/refactor_results.txt; : > $out
for d in refactors/*/; do
  id=$(basename $d); P=${id%-*}
  WT=$(mktemp -d /tmp/evalref_XXXX); rmdir $WT
  git -C /repo worktree add -q $WT HEAD || continue
  if ! git -C $WT apply $(realpath $d/patch.diff); then echo "$id PATCH-DOES-NOT-APPLY" >> $out; git -C /repo worktree remove --force $WT; continue; fi
  s=$(date +%s)
  VERIF_REPO=$WT timeout 3000 ./check $P --tier quick > $WT.check.log 2>&1; ec=$?
  echo "$id check exit=$ec wall=$(( $(date +%s) - s ))s $(grep -E '^VIOLATION|^INCONCL' $WT.check.log | head -2 | cut -c1-220 | tr '\n' ' ')" >> $out
  cp $WT.check.log $d/check.log; rm -f $WT.check.log
  git -C /repo worktree remove --force $WT
done
git checkout -- evidence 2>/dev/null
