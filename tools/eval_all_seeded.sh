#!/bin/bash
# Re-evaluation of every seeded change with the current checks (quick tier; the pinned
# tests are confirmed separately by tools/confirm_tests.sh).  Two lanes in parallel,
# 7 worker processes each.  Result: scratch/seeded_results.txt
cd /verif
lane() {
  out=$1; shift; : > $out
  for d in "$@"; do
    id=$(basename $d); P=${id%-*}
    [ -f $d/patch.diff ] || continue
    res=$(SKIP_TESTS=1 VERIF_JOBS=7 timeout 3000 tools/eval_mutant.sh $P $d/patch.diff $d/demo.py quick 2>&1)
    ce=$(echo "$res" | grep -o "check exit=[0-9]*" | head -1)
    de=$(echo "$res" | grep -o "demo exit=[0-9]*" | head -1)
    key=$(echo "$res" | grep "^  key=" | head -1 | cut -c1-150)
    echo "$id $de $ce $key" >> $out
  done
}
all=(seeded/*/)
n=${#all[@]}; h=$((n/2))
lane scratch/seeded_results.a "${all[@]:0:$h}" &
lane scratch/seeded_results.b "${all[@]:$h}" &
wait
cat scratch/seeded_results.a scratch/seeded_results.b | sort > scratch/seeded_results.txt
