#!/bin/bash
# Sequential re-evaluation of every seeded change with the current checks
# (quick tier; baseline tests skipped - they were confirmed at import time).
cd /verif
out=scratch/seeded_results.txt; : > $out
for d in seeded/*/; do
  id=$(basename $d); P=${id%-*}
  [ -f $d/patch.diff ] || continue
  res=$(SKIP_TESTS=1 timeout 3000 tools/eval_mutant.sh $P $d/patch.diff $d/demo.py quick 2>&1)
  ce=$(echo "$res" | grep -o "check exit=[0-9]*" | head -1)
  de=$(echo "$res" | grep -o "demo exit=[0-9]*" | head -1)
  key=$(echo "$res" | grep "^  key=" | head -1 | cut -c1-150)
  echo "$id $de $ce $key" >> $out
done
