#!/bin/bash
# kill all runner processes of a check id (and mutant evaluations)
pat="pysym.runner $1"
for pid in $(pgrep -f "$pat"); do kill $pid 2>/dev/null; done
for pid in $(pgrep -f "eval_mutant.sh $1"); do kill $pid 2>/dev/null; done
sleep 1
echo "left: $(pgrep -f "$pat" | wc -l)"
