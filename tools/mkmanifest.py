#!/usr/bin/env python3
"""Regenerate /verif/MANIFEST.json from the check modules' MANIFEST dicts."""
import importlib, json, os, sys
V = os.path.dirname(os.path.dirname(os.path.abspath(__file__)))
sys.path.insert(0, V); sys.path.insert(0, '/repo')
props = [json.loads(l) for l in open(os.path.join(V, 'properties.jsonl'))]
NA = json.load(open(os.path.join(V, 'tools', 'not_applicable.json')))
READY = set(json.load(open(os.path.join(V, 'tools', 'ready.json'))))
checks, na = [], []
for p in props:
    pid = p['id']
    path = os.path.join(V, 'checks', pid.lower() + '.py')
    if os.path.exists(path) and pid not in NA and pid in READY:
        m = importlib.import_module('checks.' + pid.lower()).MANIFEST
        checks.append(dict(
            property_id=pid,
            quick_cmd='./check %s --tier quick' % pid,
            thorough_cmd='./check %s --tier thorough' % pid,
            evidence_file='/verif/evidence/%s.json' % pid,
            replay_cmd_template='./check %s --replay {path}' % pid,
            engine='pysym',
            level_claimed=dict(category=m.get('category', 'model_checking'),
                               text=m['text'], design_ref=m.get('design_ref', 'DESIGN.md section 5 ' + pid)),
            level_note=m['note'], technique=m['technique']))
    else:
        na.append(dict(property_id=pid, reason=NA.get(pid, 'no check built yet in this tree (work in progress); see DESIGN.md section 5 for the plan')))
man = dict(
    version=1, setup_cmd='./setup.sh',
    hooks=dict(guard='PYPHYSIM_VERIF', enable='no source hooks: all instrumentation is run-time injection of module globals from the harness side (pysym.npfacade.inject)',
               baseline_off_cmd='cd /repo && /venv/bin/python -m pytest -ra -q -p no:cacheprovider --timeout=900 --continue-on-collection-errors',
               source_commits=[], add_only=True),
    engines=[dict(name='pysym', path='/verif/pysym', serves_properties=[c['property_id'] for c in checks],
                  kind_free_text='symbolic execution of the real pyphysim functions on numpy object arrays of symbolic scalars (re-execution DFS path forking), obligations decided by z3 (QF_NRA/LIA/BV, linearised QF_LRA with contract instantiation) and cvc5 (QF_FP); counterexamples replayed on the real code')],
    checks=checks, not_applicable=na,
    notes='Every claim is bounded (sizes, unrollings, value ranges are in each evidence file and DESIGN.md section 5). Exit 2 = inconclusive (never success). known_findings.json lists genuine defects found (fixed ones suppress nothing).')
json.dump(man, open(os.path.join(V, 'MANIFEST.json'), 'w'), indent=1)
print('checks:', [c['property_id'] for c in checks], 'n/a:', len(na))
