#!/bin/bash
# Runs the repository's pinned baseline and checks that every test listed in
# /root/.vp/BASELINE.json stable_pass still passes.
OUT=${1:-/verif/scratch/baseline.junit.xml}
cd /repo && /venv/bin/python -m pytest -ra -q -p no:cacheprovider --timeout=900 --continue-on-collection-errors --junitxml=$OUT > ${OUT%.xml}.log 2>&1
/venv/bin/python - "$OUT" <<'PY'
import json, sys, xml.etree.ElementTree as ET
base = json.load(open('/root/.vp/BASELINE.json'))
want = set(base['stable_pass'])
root = ET.parse(sys.argv[1]).getroot()
passed = set()
for tc in root.iter('testcase'):
    name = tc.get('classname') + '::' + tc.get('name')
    if not any(ch.tag in ('failure', 'error', 'skipped') for ch in tc):
        passed.add(name)
missing = sorted(want - passed)
print('stable_pass:', len(want), 'passed now:', len(passed), 'missing:', len(missing))
for m in missing[:20]:
    print('  MISSING', m)
sys.exit(1 if missing else 0)
PY
