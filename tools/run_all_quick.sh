#!/bin/bash
# run every quick check once (VERIF_SEED from env), summarise
cd /verif
out=scratch/quick_seed${VERIF_SEED:-0}.txt; : > $out
for p in C01 C02 C03 C04 C05 C06 C07 C08 C09 C10 C11 C12 C13 C14 C15 C16 C17 C18 C19 C20; do
  s=$(date +%s)
  timeout 900 ./check $p --tier quick --jobs 8 > scratch/quick_$p.log 2>&1
  echo "$p exit=$? wall=$(( $(date +%s) - s ))s $(grep -c '^KNOWN' scratch/quick_$p.log) known $(grep -E '^INCONCL|^VIOLATION' scratch/quick_$p.log | head -2 | cut -c1-200)" >> $out
done
# (evidence files of this run are kept)
