#!/bin/bash
# tools/eval_mutant.sh <PROP> <patch.diff> <demo.py> [tier]
# Applies the patch in a scratch worktree of /repo HEAD, runs the pinned baseline
# tests, the demo and the check (VERIF_REPO=<worktree>); removes the worktree.
P=$1; PATCH=$(realpath $2); DEMO=$(realpath $3); TIER=${4:-quick}
WT=$(mktemp -d /tmp/evalmut_XXXX); rmdir $WT
git -C /repo worktree add -q $WT HEAD || exit 9
cd $WT
if ! git apply $PATCH; then echo "PATCH-DOES-NOT-APPLY"; cd /; git -C /repo worktree remove --force $WT; exit 8; fi
echo "== demo on mutated tree"; PYTHONPATH=$WT /venv/bin/python $DEMO > $WT.demo.log 2>&1; echo "demo exit=$? (expect 1)"; tail -n 3 $WT.demo.log
if [ -z "$SKIP_TESTS" ]; then
echo "== baseline tests on mutated tree"
/venv/bin/python -m pytest -q -p no:cacheprovider --timeout=900 --continue-on-collection-errors --junitxml=$WT.junit.xml > $WT.tests.log 2>&1
EVAL_XML=$WT.junit.xml /venv/bin/python - <<'PY'
import json, xml.etree.ElementTree as ET
want=set(json.load(open('/root/.vp/BASELINE.json'))['stable_pass'])
passed=set()
for tc in ET.parse(__import__('os').environ['EVAL_XML']).getroot().iter('testcase'):
    if not any(ch.tag in ('failure','error','skipped') for ch in tc):
        passed.add(tc.get('classname')+'::'+tc.get('name'))
miss=sorted(want-passed)
print('stable_pass still passing:', len(want)-len(miss), '/', len(want), 'MISSING:', miss[:5])
PY
fi
echo "== check $P ($TIER) on mutated tree"
cd /verif && VERIF_REPO=$WT timeout 3000 ./check $P --tier $TIER > $WT.check.log 2>&1; echo "check exit=$? (expect 1)"; grep -E "^VIOLATION|^  key=|^KNOWN|^INCONCLUSIVE" $WT.check.log | cut -c1-300 | head -8; tail -n 1 $WT.check.log | cut -c1-200
git -C /repo worktree remove --force $WT
rm -f $WT.demo.log $WT.junit.xml $WT.tests.log $WT.check.log
git -C /verif checkout -- evidence 2>/dev/null
