#!/bin/bash
# tools/confirm_tests.sh [suffixes...]  (default: E F)
# For every seeded/<ID>-<suffix>: apply the patch in a scratch worktree and run the
# pinned baseline (all stable_pass tests of /root/.vp/BASELINE.json must still pass).
# Sequential on purpose: one test of the suite binds a fixed TCP port.
cd /verif
SUF=${@:-E F}
out=scratch/confirm_tests.txt; : > $out
for d in seeded/*/; do
  id=$(basename $d); s=${id##*-}
  case " $SUF " in *" $s "*) ;; *) continue;; esac
  WT=$(mktemp -d /tmp/conft_XXXX); rmdir $WT
  git -C /repo worktree add -q $WT HEAD || continue
  if ! git -C $WT apply $(realpath $d/patch.diff); then echo "$id PATCH-DOES-NOT-APPLY" >> $out; git -C /repo worktree remove --force $WT; continue; fi
  (cd $WT && timeout 900 /venv/bin/python -m pytest -q -p no:cacheprovider --timeout=300 --continue-on-collection-errors --junitxml=$WT.junit.xml > $WT.tests.log 2>&1)
  res=$(EVAL_XML=$WT.junit.xml /venv/bin/python - <<'PY'
import json, os, xml.etree.ElementTree as ET
want=set(json.load(open('/root/.vp/BASELINE.json'))['stable_pass'])
passed=set()
try:
    for tc in ET.parse(os.environ['EVAL_XML']).getroot().iter('testcase'):
        if not any(ch.tag in ('failure','error','skipped') for ch in tc):
            passed.add(tc.get('classname')+'::'+tc.get('name'))
    miss=sorted(want-passed)
    print('stable_pass', len(want)-len(miss), '/', len(want), 'MISSING', miss[:4])
except Exception as e:
    print('NO-RESULT', e)
PY
)
  echo "$id $res" >> $out
  git -C /repo worktree remove --force $WT; rm -f $WT.junit.xml $WT.tests.log
done
